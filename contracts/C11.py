"""C11 - every MDIB lookup always agrees with a scan of the stored objects (multikey.py)."""
from __future__ import annotations

import z3

from pyvc.api import (FnCheck, LoopSpec, Pure, Inline, register, Build, V, Val, SeqVal, IntS, RealS, BoolS, NONE, Raise,
                      Unsupported, fresh, vany, vint, vbool, vref, as_int, unbox_as, field, TESTER)

MOD = 'sdc11073.multikey'


def key_func_summary(may_raise=True):
    """`self._get_key_func(obj)`: an arbitrary pure function of obj (one symbolic result per execution)."""
    def fn(ex, st, args, kwargs):
        k = st.ghost.get('c:key')
        if k is None:
            k = fresh(Val, 'key')
            st.ghost['c:key'] = k
        return vany(k, maybe_none=True)
    return Pure(fn, name='key function (uninterpreted, pure)', raises=('AttributeError',) if may_raise else ())


class IndexPre:
    """Pre-state of an IndexDefinition (a dict key -> list of objects) with its type invariant."""

    def build(self, b: Build, cls):
        st = b.st
        self.flag = b.bool('index_none_values')
        slf = b.obj('self', cls=(MOD, cls), _index_none_values=self.flag)
        self.slf = slf
        self.obj = b.any('obj')
        dk = z3.Select(st.get_arr('DK'), slf.e)
        dv = z3.Select(st.get_arr('DV'), slf.e)
        k1, k2 = z3.Consts('k1 k2', Val)
        # type invariant: values are list objects, each owned by exactly one key, distinct from the index itself
        st.assume(z3.ForAll([k1], z3.Implies(z3.Select(dk, k1), z3.And(
            Val.is_ref(z3.Select(dv, k1)), Val.oid(z3.Select(dv, k1)) != slf.e,
            Val.oid(z3.Select(dv, k1)) > 0, Val.oid(z3.Select(dv, k1)) < 10 ** 9,
            z3.Select(st.get_arr('C'), Val.oid(z3.Select(dv, k1))) == b.ex.ctx.builtin_class_ids['list']))))
        st.assume(z3.ForAll([k1, k2], z3.Implies(z3.And(z3.Select(dk, k1), z3.Select(dk, k2), k1 != k2),
                                                 z3.Select(dv, k1) != z3.Select(dv, k2))))
        st.assume(z3.Select(st.get_arr('DN'), slf.e) >= 0)
        return slf

    @staticmethod
    def view(st, slf, k):
        """Abstract view: the sequence stored under k (empty when absent)."""
        dk = z3.Select(st.get_arr('DK'), slf.e)
        dv = z3.Select(st.get_arr('DV'), slf.e)
        return z3.If(z3.Select(dk, k), z3.Select(st.get_arr('L'), Val.oid(z3.Select(dv, k))), z3.Empty(SeqVal))

    @staticmethod
    def has(st, slf, k):
        return z3.Select(z3.Select(st.get_arr('DK'), slf.e), k)


class _MkKeysBase(FnCheck, IndexPre):
    prop = 'C11'
    cls = 'IndexDefinition'
    inline = (f'{MOD}:IndexDefinition.__getitem__',)
    container_hints = {}

    def setup(self, b):
        slf = self.build(b, self.cls)
        return slf, [self.obj], {}

    def callees(self, ex):
        return {'self._get_key_func': key_func_summary()}

    def unchanged(self, ex, st0, st, name):
        kq = z3.Const('kq', Val)
        ex.oblige(st, name, z3.ForAll([kq], z3.And(self.has(st, self.slf, kq) == self.has(st0, self.slf, kq),
                                                   self.view(st, self.slf, kq) == self.view(st0, self.slf, kq))))


@register
class MkKeys(_MkKeysBase):
    id = 'C11.mk_keys'
    target = f'{MOD}:IndexDefinition.mk_keys'
    doc = ('IndexDefinition.mk_keys(obj): obj appended to the entry of its key (entry created when absent), every '
           'other entry unchanged; None key with index_none_values=False => no change, returns None')

    def post(self, ex, st0, st, outcome, b):
        key = st.ghost.get('c:key')
        if outcome[0] == 'exc':
            ex.oblige(st, 'only_key_func_exception', z3.BoolVal(outcome[1].cls == 'AttributeError'
                                                               and 'key function' in outcome[1].origin))
            self.unchanged(ex, st0, st, 'exception_no_change')
            return
        r = outcome[1]
        skip = z3.And(z3.Not(self.flag.e), Val.is_none(key))
        rb = st.box(r)
        ex.oblige(st, 'none_key_returns_none', z3.Implies(skip, Val.is_none(rb)))
        kq = z3.Const('kq', Val)
        ex.oblige(st, 'none_key_no_change', z3.Implies(skip, z3.ForAll([kq], z3.And(
            self.has(st, self.slf, kq) == self.has(st0, self.slf, kq),
            self.view(st, self.slf, kq) == self.view(st0, self.slf, kq)))))
        ex.oblige(st, 'entry_extended', z3.Implies(z3.Not(skip), z3.And(
            self.has(st, self.slf, key),
            self.view(st, self.slf, key) == z3.Concat(self.view(st0, self.slf, key), z3.Unit(st.box(self.obj))))))
        ex.oblige(st, 'other_entries_unchanged', z3.Implies(z3.Not(skip), z3.ForAll([kq], z3.Implies(kq != key, z3.And(
            self.has(st, self.slf, kq) == self.has(st0, self.slf, kq),
            self.view(st, self.slf, kq) == self.view(st0, self.slf, kq))))))
        if r.kind != 'none':
            rr = ex.concrete_kind(st, r, ('ref', 'none'))
            if rr.kind == 'ref':
                ex.oblige(st, 'returns_key_list', z3.Implies(z3.Not(skip), st.list_seq(rr) == z3.Unit(key)))
            else:
                ex.oblige(st, 'returns_key_list', z3.Implies(z3.Not(skip), z3.BoolVal(False)))
        else:
            ex.oblige(st, 'returns_key_list', skip)


@register
class UMkKeys(_MkKeysBase):
    id = 'C11.u_mk_keys'
    cls = 'UIndexDefinition'
    target = f'{MOD}:UIndexDefinition.mk_keys'
    doc = ('UIndexDefinition.mk_keys(obj): key already present => KeyError and the index is unchanged; otherwise the '
           'entry [obj] is created and every other entry is unchanged')

    def post(self, ex, st0, st, outcome, b):
        key = st.ghost.get('c:key')
        if key is None:
            # only possible when the key function itself raised
            ok = outcome[0] == 'exc' and outcome[1].cls == 'AttributeError' and 'key function' in outcome[1].origin
            ex.oblige(st, 'key_func_called', z3.BoolVal(ok))
            self.unchanged(ex, st0, st, 'exception_no_change')
            return
        skip = z3.And(z3.Not(self.flag.e), Val.is_none(key))
        had = self.has(st0, self.slf, key)
        if outcome[0] == 'exc':
            cls = outcome[1].cls
            self.unchanged(ex, st0, st, 'exception_no_change')
            if cls == 'KeyError':
                ex.oblige(st, 'keyerror_only_for_duplicate', z3.And(z3.Not(skip), had))
            elif cls == 'ValueError':
                # keys that are lists are rejected for unique indices
                pass
            else:
                ex.oblige(st, 'only_expected_exceptions',
                          z3.BoolVal(cls == 'AttributeError' and 'key function' in outcome[1].origin))
            return
        kq = z3.Const('kq', Val)
        ex.oblige(st, 'duplicate_is_rejected', z3.Implies(z3.Not(skip), z3.Not(had)))
        ex.oblige(st, 'entry_created', z3.Implies(z3.Not(skip), z3.And(
            self.has(st, self.slf, key), self.view(st, self.slf, key) == z3.Unit(st.box(self.obj)))))
        ex.oblige(st, 'other_entries_unchanged', z3.ForAll([kq], z3.Implies(z3.Or(skip, kq != key), z3.And(
            self.has(st, self.slf, kq) == self.has(st0, self.slf, kq),
            self.view(st, self.slf, kq) == self.view(st0, self.slf, kq)))))


@register
class RmKey(FnCheck, IndexPre):
    id = 'C11.rm_key'
    prop = 'C11'
    target = f'{MOD}:IndexDefinition.rm_key'
    inline = (f'{MOD}:IndexDefinition.__getitem__',)
    doc = ('IndexDefinition.rm_key(key, obj): removes the first occurrence of obj from the entry of key, deletes the '
           'entry when it becomes empty, never raises, leaves every other entry unchanged')

    def setup(self, b):
        slf = self.build(b, 'IndexDefinition')
        self.key = b.any('key')
        return slf, [self.key, self.obj], {}

    def post(self, ex, st0, st, outcome, b):
        if outcome[0] == 'exc':
            ex.oblige(st, 'never_raises', z3.BoolVal(False), info={'exc': repr(outcome[1])})
            return
        key, obj = self.key.e, st.box(self.obj)
        old = self.view(st0, self.slf, key)
        new = self.view(st, self.slf, key)
        had = z3.Contains(old, z3.Unit(obj))
        idx = z3.IndexOf(old, z3.Unit(obj), 0)
        removed = z3.Concat(z3.SubSeq(old, 0, idx), z3.SubSeq(old, idx + 1, z3.Length(old) - idx - 1))
        ex.oblige(st, 'first_occurrence_removed', z3.Implies(had, new == removed))
        ex.oblige(st, 'absent_obj_no_change', z3.Implies(z3.Not(had), z3.And(
            new == old, self.has(st, self.slf, key) == self.has(st0, self.slf, key))))
        ex.oblige(st, 'empty_entry_deleted', z3.Implies(z3.And(had, z3.Length(old) == 1),
                                                        z3.Not(self.has(st, self.slf, key))))
        ex.oblige(st, 'nonempty_entry_kept', z3.Implies(z3.And(had, z3.Length(old) > 1), self.has(st, self.slf, key)))
        kq = z3.Const('kq', Val)
        ex.oblige(st, 'other_entries_unchanged', z3.ForAll([kq], z3.Implies(kq != key, z3.And(
            self.has(st, self.slf, kq) == self.has(st0, self.slf, kq),
            self.view(st, self.slf, kq) == self.view(st0, self.slf, kq)))))


# re-index discipline at the in-place update sites (an object changed in place must be re-indexed AFTER the change):
# provider commit of a descriptor update and the consumer's description-modification handler
from contracts import C02 as _c02   # noqa: E402
from contracts import C01 as _c01   # noqa: E402


@register
class ProviderReindexAfterUpdate(_c02.DescriptorProcessTransaction):
    id = 'C11.provider_descriptor_commit_reindexes_after_update'
    prop = 'C11'


@register
class ConsumerReindexAfterUpdate(_c01.DescriptionModifications):
    id = 'C11.consumer_description_update_reindexes_after_update'
    prop = 'C11'


# ---------------------------------------------------------------------------------------------------------------
# composition of the leaf operations inside MultiKeyLookup (structure of every path, any number of indices / refs)

LK = f'{MOD}:MultiKeyLookup'


def _oid(st, v):
    return v.e if v.kind == 'ref' else Val.oid(st.box(v))


class _TableBase(FnCheck):
    """Pre-state of a MultiKeyLookup: object set, back-reference dict id(obj) -> list of _ObjRef, index dict."""
    prop = 'C11'
    tag = 'S'
    opaque_ok = True
    LOGGED = ('rm_key', 'mk_keys', '_rm_indices', '_mk_indices', '_update_indices', '_add_object', 'setdefault')
    trusted = ('leaf contracts C11.mk_keys / C11.u_mk_keys / C11.rm_key (proved): a leaf call writes only its own index',)
    stable_fields = ('_objects', '_object_ids', '_idx_defs', '_lock', 'index_dict', 'key')

    def build_table(self, b, with_entry=True):
        st = b.st
        ids = b.obj('object_ids')
        objs = b.obj('objects')
        idx = b.obj('idx_defs')
        lock = b.obj('lock')
        for o, c in ((ids, 'dict'), (objs, 'set'), (idx, 'dict')):
            st.assume(z3.Select(st.get_arr('C'), o.e) == b.ex.ctx.builtin_class_ids[c])
        self.t = b.obj('self', cls=(MOD, 'MultiKeyLookup'), _objects=objs, _object_ids=ids, _idx_defs=idx, _lock=lock)
        self.ids, self.objs, self.idx, self.lock = ids, objs, idx, lock
        self.obj = b.obj('obj')
        b.distinct(self.t, ids, objs, idx, lock, self.obj)
        self.idkey = Val.int(self.obj.e)      # id(obj) in the engine's model: the object identity as an int
        if with_entry:
            refs = b.obj('refs')
            st.assume(z3.Select(st.get_arr('C'), refs.e) == b.ex.ctx.builtin_class_ids['list'])
            b.distinct(self.t, ids, objs, idx, lock, self.obj, refs)
            st.assume(z3.Select(z3.Select(st.get_arr('DK'), ids.e), self.idkey))
            st.assume(z3.Select(z3.Select(st.get_arr('DV'), ids.e), self.idkey) == Val.ref(refs.e))
            self.refs = refs
            self.R0 = z3.Select(st.get_arr('L'), refs.e)
        b.ex.ctx.sym_defaultdicts = [(ids.e, 'list')]     # _object_ids = defaultdict(list)
        kt = z3.Const('kt', Val)
        dv = z3.Select(st.get_arr('DV'), ids.e)
        # type invariant: the values of _object_ids are list objects of the pre-state, none of them a table member
        st.assume(z3.ForAll([kt], z3.Implies(z3.Select(z3.Select(st.get_arr('DK'), ids.e), kt), z3.And(
            Val.is_ref(z3.Select(dv, kt)), Val.oid(z3.Select(dv, kt)) > 0, Val.oid(z3.Select(dv, kt)) < 10 ** 9,
            Val.oid(z3.Select(dv, kt)) != ids.e,
            z3.Select(st.get_arr('C'), Val.oid(z3.Select(dv, kt))) == b.ex.ctx.builtin_class_ids['list']))))
        st.ghost['calls'] = ()
        return self.t

    def hooks(self, ex):
        chk = self

        class H:
            tracked_names = chk.LOGGED

            @staticmethod
            def on_loop_havoc(ex_, st, node):
                st.ghost['calls'] += (('#loop', ex_.loop_ordinal(node)),)

            @staticmethod
            def on_call(ex_, st, fv, keys, args, kwargs, node):
                name = getattr(fv, 'name', None) or (fv.fn.name if fv.t == 'repo' else None)
                if name not in chk.LOGGED:
                    return None
                recv = fv.recv if fv.t == 'method' else getattr(fv, 'self_v', None)
                rec = (name, st.box(recv) if recv is not None else None, tuple(st.box(a) for a in args))
                st.ghost['calls'] += (rec,)
                return chk.callee_outcomes(ex_, st, name, recv, args, node)
        return H

    def callee_outcomes(self, ex, st, name, recv, args, node):
        return [(st, NONE)]

    @staticmethod
    def own_calls(st, ordinal):
        calls = st.ghost['calls']
        heads = [i for i, c in enumerate(calls) if c == ('#loop', ordinal)]
        return tuple(c for c in calls[heads[-1] + 1:] if c[0] != '#loop') if heads else ()

    def entry_of(self, st, d, k):
        return z3.Select(z3.Select(st.get_arr('DK'), d.e), k), z3.Select(z3.Select(st.get_arr('DV'), d.e), k)


@register
class RmIndices(_TableBase):
    id = 'C11.rm_indices'
    target = f'{LK}._rm_indices'
    doc = ('_rm_indices(obj): iterates exactly the back references recorded for obj; every iteration makes exactly one '
           'rm_key(ref.key, obj) call on ref.index_dict; afterwards the back-reference entry of obj is gone and every '
           'other entry of _object_ids is untouched; never raises when obj has an entry')

    def setup(self, b):
        t = self.build_table(b)
        return t, [self.obj], {}

    def loops(self, ex):
        def inv(ex_, st, env):
            if env['_phase'] == 'entry':
                ex_.oblige(st, 'loop.iterates_the_recorded_back_references',
                           env['_seq'] == z3.Select(st.get_arr('L'), self.refs.e), kind='loop')
            if env['_phase'] == 'preserve':
                own = self.own_calls(st, 0)
                item = st.box(st.locals['obj_ref'])
                ex_.oblige(st, 'loop.one_rm_key_per_reference_on_its_index_with_its_key', z3.And(
                    z3.BoolVal(len(own) == 1 and own[0][0] == 'rm_key'),
                    Val.oid(own[0][1]) == Val.oid(z3.Select(st.get_arr('f:index_dict'), Val.oid(item))),
                    own[0][2][0] == z3.Select(st.get_arr('f:key'), Val.oid(item)),
                    own[0][2][1] == Val.ref(self.obj.e)) if len(own) == 1 else z3.BoolVal(False), kind='loop')
            return z3.BoolVal(True)
        return {0: LoopSpec(inv=inv, havoc_heap=[])}

    def post(self, ex, st0, st, outcome, b):
        if outcome[0] == 'exc':
            ex.oblige(st, 'never_raises_when_obj_has_an_entry', z3.BoolVal(False), info={'exc': repr(outcome[1])})
            return
        has, _ = self.entry_of(st, self.ids, self.idkey)
        ex.oblige(st, 'back_reference_entry_removed', z3.Not(has))
        kq = z3.Const('kq', Val)
        h0, v0 = self.entry_of(st0, self.ids, kq)
        h1, v1 = self.entry_of(st, self.ids, kq)
        ex.oblige(st, 'other_back_references_untouched', z3.ForAll([kq], z3.Implies(kq != self.idkey, z3.And(h0 == h1, v0 == v1))))
        ex.oblige(st, 'object_set_untouched', z3.Select(st.get_arr('S'), self.objs.e) == z3.Select(st0.get_arr('S'), self.objs.e))
        ex.oblige(st, 'recorded_reference_list_itself_untouched', z3.Select(st.get_arr('L'), self.refs.e) == self.R0)


@register
class UpdateIndices(_TableBase):
    id = 'C11.update_indices'
    target = f'{LK}._update_indices'
    doc = ('_update_indices(obj): removes the old index entries, then makes the new ones (in this order, once each). '
           'When making them is rejected (any exception, e.g. duplicate key in a unique index) every recorded old '
           'reference is put back: one setdefault(ref.key, []) on ref.index_dict per old reference and obj appended to '
           'the returned list, the back-reference entry of obj holds exactly the old references again, and the '
           'exception of _mk_indices propagates')
    trusted = _TableBase.trusted + ('C11.rm_indices / C11.mk_indices (contracts of the callees, proved separately)',)

    def setup(self, b):
        t = self.build_table(b)
        return t, [self.obj], {}

    def callee_outcomes(self, ex, st, name, recv, args, node):
        from pyvc.models import dict_del
        if name == '_rm_indices':
            dict_del(ex, st, self.ids, vany(self.idkey))        # C11.rm_indices: entry removed, nothing else
            return [(st, NONE)]
        if name == '_mk_indices':
            bad = st.fork()                                     # C11.mk_indices: rejected => _object_ids untouched
            ok_list = st.new_list()
            from pyvc.models import dict_set
            st.set_list_seq(ok_list, fresh(SeqVal, 'new_refs'))
            dict_set(ex, st, self.ids, vany(self.idkey), ok_list)
            return [(bad, Raise(ex.mk_exc('*', 'raised by _mk_indices'))), (st, NONE)]
        if name == 'setdefault':
            lst = fresh(IntS, 'entry')
            st.assume(z3.And(lst > 0, lst < 10 ** 9, lst != self.refs.e, lst != self.ids.e,
                             z3.Select(st.get_arr('C'), lst) == ex.ctx.builtin_class_ids['list']))
            st.ghost['c:entry'] = (lst, z3.Select(st.get_arr('L'), lst))
            return [(st, vref(lst))]
        return [(st, NONE)]

    def loops(self, ex):
        def inv(ex_, st, env):
            if env['_phase'] == 'entry':
                ex_.oblige(st, 'restore.iterates_the_references_recorded_before_the_removal', env['_seq'] == self.R0, kind='loop')
            if env['_phase'] == 'preserve':
                own = self.own_calls(st, 0)
                item = st.box(st.locals['obj_ref'])
                ok = z3.BoolVal(False)
                if len(own) == 1 and own[0][0] == 'setdefault' and len(own[0][2]) == 2 and 'c:entry' in st.ghost:
                    lst, before = st.ghost['c:entry']
                    dflt = own[0][2][1]
                    ok = z3.And(Val.oid(own[0][1]) == Val.oid(z3.Select(st.get_arr('f:index_dict'), Val.oid(item))),
                                own[0][2][0] == z3.Select(st.get_arr('f:key'), Val.oid(item)),
                                Val.is_ref(dflt), Val.oid(dflt) >= 10 ** 9,
                                z3.Select(st.get_arr('L'), Val.oid(dflt)) == z3.Empty(SeqVal),
                                z3.Select(st.get_arr('L'), lst) == z3.Concat(before, z3.Unit(Val.ref(self.obj.e))))
                ex_.oblige(st, 'restore.obj_put_back_under_the_old_key_of_the_old_index_once', ok, kind='loop')
            # the private copy of the old references is not changed by the restore steps
            return {'copy_of_old_references_unchanged': z3.Select(st.get_arr('L'), _oid(st, st.locals['old_refs'])) == self.R0}
        return {0: LoopSpec(inv=inv, havoc_heap=['L'])}

    def post(self, ex, st0, st, outcome, b):
        calls = [c for c in st.ghost['calls']]
        names = [c[0] for c in calls if c[0] != '#loop' and c[0] != 'setdefault']
        ex.oblige(st, 'old_entries_removed_before_new_ones_are_made_once_each', z3.And(
            z3.BoolVal(names == ['_rm_indices', '_mk_indices']),
            *[c[2][0] == Val.ref(self.obj.e) for c in calls if c[0] in ('_rm_indices', '_mk_indices')]))
        has, val = self.entry_of(st, self.ids, self.idkey)
        if outcome[0] == 'ret':
            ex.oblige(st, 'accepted_update_makes_no_restore_step', z3.BoolVal(all(c[0] != 'setdefault' for c in calls)))
            return
        ex.oblige(st, 'rejected.exception_of_mk_indices_propagates', z3.BoolVal(outcome[1].origin == 'raised by _mk_indices'))
        ex.oblige(st, 'rejected.back_references_are_the_old_ones_again', z3.And(
            has, Val.is_ref(val), z3.Select(st.get_arr('L'), Val.oid(val)) == self.R0))
        kq = z3.Const('kq', Val)
        h0, v0 = self.entry_of(st0, self.ids, kq)
        h1, v1 = self.entry_of(st, self.ids, kq)
        ex.oblige(st, 'rejected.other_back_references_untouched', z3.ForAll([kq], z3.Implies(kq != self.idkey, z3.And(h0 == h1, v0 == v1))))

    def finish(self, ex, st0, outcomes, b):
        ex.oblige(st0, 'rejected_path_exists', z3.BoolVal(any(oc[0] == 'exc' for _, oc in outcomes)))


@register
class MkIndices(_TableBase):
    id = 'C11.mk_indices'
    target = f'{LK}._mk_indices'
    doc = ('_mk_indices(obj): every iteration over the index definitions calls mk_keys(obj) exactly once on its index; '
           'the keys it returns are recorded as (index, key) references in the same order, a None result or a '
           'TypeError/AttributeError of the key function records nothing and goes on. Any other exception (duplicate '
           'key in a unique index) undoes exactly the recorded references (one rm_key(ref.key, obj) on ref.index_dict '
           'each), leaves _object_ids untouched and propagates. On success the recorded references are appended to the '
           'back-reference entry of obj (created when absent); other entries are untouched')

    def setup(self, b):
        t = self.build_table(b, with_entry=False)
        st = b.st
        had, val0 = self.entry_of(st, self.ids, self.idkey)
        self.entry0 = (had, val0, z3.Select(st.get_arr('L'), Val.oid(val0)))
        return t, [self.obj], {}

    def callee_outcomes(self, ex, st, name, recv, args, node):
        if name == 'mk_keys':
            outs = []
            for cls in ('AttributeError', 'TypeError'):
                outs.append((st.fork(), Raise(ex.mk_exc(cls, 'key function failed'))))
            outs.append((st.fork(), Raise(ex.mk_exc('KeyError', 'rejected by mk_keys'))))
            outs.append((st.fork(), Raise(ex.mk_exc('*', 'rejected by mk_keys'))))
            none = st.fork()
            none.ghost['c:keys'] = None
            outs.append((none, NONE))
            keys = st.new_list()
            ks = fresh(SeqVal, 'keys')
            st.set_list_seq(keys, ks)
            st.ghost['c:keys'] = ks
            outs.append((st, keys))
            return outs
        return [(st, NONE)]

    def hooks(self, ex):
        H = super().hooks(ex)
        chk = self

        def on_loop_head(ex_, st, node):
            ak = st.locals.get('all_keys')
            if ak is not None:
                st.ghost['c:ak0'] = z3.Select(st.get_arr('L'), _oid(st, ak))
                st.ghost['c:all_keys'] = ak
                st.ghost['c:ids0'] = (st.get_arr('DK'), st.get_arr('DV'), st.get_arr('L'))
                st.ghost.pop('c:keys', None)
        H.on_loop_head = staticmethod(on_loop_head)
        return H

    def loops(self, ex):
        def make(ex_, st, env):
            had, val0, l0 = self.entry0
            inv = {'existing_entry_of_obj_is_not_written_while_indexing':
                   z3.Implies(had, z3.Select(st.get_arr('L'), Val.oid(val0)) == l0)}
            if env['_phase'] != 'preserve':
                return inv
            own = self.own_calls(st, 0)
            item = st.box(st.locals['index_definition'])
            ob = lambda n, f: ex_.oblige(st, n, f, kind='loop')   # noqa: E731
            ob('make.one_mk_keys_call_per_index_on_that_index', z3.And(
                z3.BoolVal(len(own) == 1 and own[0][0] == 'mk_keys'), Val.oid(own[0][1]) == Val.oid(item),
                own[0][2][0] == Val.ref(self.obj.e)) if len(own) == 1 else z3.BoolVal(False))
            now = z3.Select(st.get_arr('L'), _oid(st, st.locals['all_keys']))
            before = st.ghost['c:ak0']
            ks = st.ghost.get('c:keys')
            if ks is None:
                ob('make.nothing_recorded_without_keys', now == before)
            else:
                j = z3.Int('j')
                am = st.ghost.get('c:last_alloc_map')
                if am is not None:
                    # the references are built by one comprehension over the returned keys: `now` is `before` followed
                    # by its result (stated over that result sequence - no sub-sequence arithmetic for the solver)
                    tail = am['result']
                    ob('make.recorded_references_grow_by_one_per_returned_key',
                       z3.And(now == z3.Concat(before, tail), z3.Length(tail) == z3.Length(ks)))
                else:
                    tail = z3.SubSeq(now, z3.Length(before), z3.Length(ks))
                    ob('make.recorded_references_grow_by_one_per_returned_key',
                       z3.And(z3.Length(now) == z3.Length(before) + z3.Length(ks), z3.SubSeq(now, 0, z3.Length(before)) == before))
                ob('make.recorded_reference_names_the_index_and_the_key_in_order', z3.ForAll([j], z3.Implies(
                    z3.And(j >= 0, j < z3.Length(ks)), z3.And(
                        Val.is_ref(tail[j]),
                        Val.oid(z3.Select(st.get_arr('f:index_dict'), Val.oid(tail[j]))) == Val.oid(item),
                        z3.Select(st.get_arr('f:key'), Val.oid(tail[j])) == ks[j]))))
            dk0, dv0, l0 = st.ghost['c:ids0']
            ob('make.back_references_not_written_before_all_indices_accepted', z3.And(
                z3.Select(st.get_arr('DK'), self.ids.e) == z3.Select(dk0, self.ids.e),
                z3.Select(st.get_arr('DV'), self.ids.e) == z3.Select(dv0, self.ids.e)))
            return inv

        def undo(ex_, st, env):
            if env['_phase'] == 'entry':
                ex_.oblige(st, 'undo.iterates_the_recorded_references',
                           env['_seq'] == z3.Select(st.get_arr('L'), _oid(st, st.locals['all_keys'])), kind='loop')
            if env['_phase'] == 'preserve':
                own = self.own_calls(st, 1)
                item = st.box(st.locals['obj_ref'])
                ex_.oblige(st, 'undo.one_rm_key_per_recorded_reference_on_its_index_with_its_key', z3.And(
                    z3.BoolVal(len(own) == 1 and own[0][0] == 'rm_key'),
                    Val.oid(own[0][1]) == Val.oid(z3.Select(st.get_arr('f:index_dict'), Val.oid(item))),
                    own[0][2][0] == z3.Select(st.get_arr('f:key'), Val.oid(item)),
                    own[0][2][1] == Val.ref(self.obj.e)) if len(own) == 1 else z3.BoolVal(False), kind='loop')
            return z3.BoolVal(True)
        return {0: LoopSpec(inv=make, havoc_heap=['L', 'f:index_dict', 'f:key']),
                1: LoopSpec(inv=undo, havoc_heap=[])}

    def post(self, ex, st0, st, outcome, b):
        kq = z3.Const('kq', Val)
        h0, v0 = self.entry_of(st0, self.ids, kq)
        h1, v1 = self.entry_of(st, self.ids, kq)
        calls = st.ghost['calls']
        if outcome[0] == 'exc':
            ex.oblige(st, 'rejected.only_a_rejection_by_mk_keys_propagates',
                      z3.BoolVal(outcome[1].origin == 'rejected by mk_keys'), info={'exc': repr(outcome[1])})
            ex.oblige(st, 'rejected.undo_loop_ran', z3.BoolVal(('#loop', 1) in calls))
            ex.oblige(st, 'rejected.back_references_untouched', z3.ForAll([kq], z3.And(h0 == h1, v0 == v1)))
            return
        ex.oblige(st, 'accepted.no_undo_step', z3.BoolVal(('#loop', 1) not in calls))
        has, val = self.entry_of(st, self.ids, self.idkey)
        had, val0 = self.entry_of(st0, self.ids, self.idkey)
        old = z3.If(had, z3.Select(st0.get_arr('L'), Val.oid(val0)), z3.Empty(SeqVal))
        ak = z3.Select(st.get_arr('L'), _oid(st, st.ghost['c:all_keys'])) if 'c:all_keys' in st.ghost else None
        ex.oblige(st, 'accepted.recorded_references_appended_to_the_entry_of_obj', z3.And(
            has, Val.is_ref(val), z3.Select(st.get_arr('L'), Val.oid(val)) == z3.Concat(old, ak)) if ak is not None else z3.BoolVal(False))
        ex.oblige(st, 'accepted.other_back_references_untouched', z3.ForAll([kq], z3.Implies(kq != self.idkey, z3.And(h0 == h1, v0 == v1))))

    def finish(self, ex, st0, outcomes, b):
        ex.oblige(st0, 'both_outcomes_exist', z3.BoolVal({oc[0] for _, oc in outcomes} == {'exc', 'ret'}))


# ---------------------------------------------------------------------------------------------------------------
# the public single-object operations: thin wrappers whose protocol over the proved helpers is fixed here. Together with
# C11.mk_indices / rm_indices / update_indices (which keep the indices and back references of exactly one object in
# step) they give: objects' = objects + obj / - obj, indices follow, a rejected operation changes nothing.
class _Wrapper(_TableBase):
    fn = ''
    helper = ''
    cls_qual = LK
    container_hints = {'self._objects': 'set', 'self._object_ids': 'dict'}

    @property
    def target(self):
        return f'{self.cls_qual}.{self.fn}'

    def setup(self, b):
        t = self.build_table(b, with_entry=False)
        st = b.st
        self.members0 = z3.Select(st.get_arr('S'), self.objs.e)
        self.is_member = z3.Select(self.members0, Val.ref(self.obj.e))
        self.has_refs = z3.Select(z3.Select(st.get_arr('DK'), self.ids.e), self.idkey)
        st.ghost['c:locks'] = ()
        return t, [self.obj], {}

    def callee_outcomes(self, ex, st, name, recv, args, node):
        if name == self.helper:
            st.ghost['c:helper_locked'] = st.ghost.get('c:helper_locked', ()) + (tuple(st.ghost.get('locks', ())),)
            return [(st.fork(), Raise(ex.mk_exc('KeyError', f'{name} rejected'))), (st, NONE)]
        return [(st, NONE)]

    def hooks(self, ex):
        H = super().hooks(ex)

        def on_with_enter(ex_, st, key, cm, node):
            st.ghost['locks'] = st.ghost.get('locks', ()) + (key,)

        def on_with_exit(ex_, st, key, cm, node, sig):
            st.ghost['locks'] = st.ghost.get('locks', ())[:-1]
        H.on_with_enter = staticmethod(on_with_enter)
        H.on_with_exit = staticmethod(on_with_exit)
        return H

    def helper_calls(self, st):
        return [c for c in st.ghost['calls'] if c[0] == self.helper]

    def members(self, st):
        return z3.Select(st.get_arr('S'), self.objs.e)


def _mk_add(fn, locked, cls_qual=LK, cid=None):
    class Add(_Wrapper):
        id = cid or f'C11.{fn}'
        helper = '_add_object'
        doc = (f'{cls_qual.split(":")[-1]}.{fn}(obj): an object that is already stored is left alone (no second insertion, '
               'nothing changes, no exception); otherwise _add_object(obj) runs exactly once'
               + (' inside the table lock' if locked else '') + ' and its rejection (KeyError of a unique index) '
               'propagates with the table as _add_object left it (C11.add_object_core: unchanged)')

        def post(self, ex, st0, st, outcome, b):
            calls = self.helper_calls(st)
            ex.oblige(st, 'stored_object_is_not_inserted_again', z3.Implies(self.is_member, z3.And(
                z3.BoolVal(len(calls) == 0), self.members(st) == self.members0, z3.BoolVal(outcome[0] == 'ret'))))
            ex.oblige(st, 'new_object_goes_through_add_object_core_once', z3.Implies(z3.Not(self.is_member), z3.BoolVal(
                len(calls) == 1) if not calls else z3.And(z3.BoolVal(len(calls) == 1), calls[0][2][0] == Val.ref(self.obj.e))))
            if locked and calls:
                ex.oblige(st, 'inside_the_table_lock', z3.BoolVal(all(any(k.endswith('._lock') for k in lk)
                                                                      for lk in st.ghost.get('c:helper_locked', ()))))
            if outcome[0] == 'exc':
                ex.oblige(st, 'only_the_rejection_of_the_core_escapes', z3.BoolVal('_add_object' in outcome[1].origin),
                          info={'exc': repr(outcome[1])})
    Add.fn = fn
    Add.cls_qual = cls_qual
    Add.__name__ = 'Add_' + fn + '_' + cls_qual.split('.')[-1]
    return Add


def _mk_remove(fn, locked):
    class Remove(_Wrapper):
        id = f'C11.{fn}'
        helper = '_rm_indices'
        doc = (f'{fn}(obj): an object without back references (not stored) changes nothing; otherwise its index entries '
               'are removed by exactly one _rm_indices(obj) (C11.rm_indices)' + (' inside the table lock' if locked else '')
               + ' and then the object itself leaves the object set; nothing else does')

        def callee_outcomes(self, ex, st, name, recv, args, node):
            if name == self.helper:
                st.ghost['c:helper_locked'] = st.ghost.get('c:helper_locked', ()) + (tuple(st.ghost.get('locks', ())),)
                return [(st, NONE)]       # C11.rm_indices: never raises when obj has an entry
            return [(st, NONE)]

        def post(self, ex, st0, st, outcome, b):
            calls = self.helper_calls(st)
            if outcome[0] == 'exc':
                # set.remove of an object that has back references but is not in the object set: excluded by the table
                # invariant (back references exist exactly for stored objects)
                ex.oblige(st, 'raises_only_when_the_table_invariant_is_broken', z3.And(self.has_refs, z3.Not(self.is_member)),
                          info={'exc': repr(outcome[1])})
                return
            ex.oblige(st, 'unknown_object_changes_nothing', z3.Implies(z3.Not(self.has_refs), z3.And(
                z3.BoolVal(len(calls) == 0), self.members(st) == self.members0)))
            x = z3.Const('x!rm', Val)
            ex.oblige(st, 'stored_object_is_unindexed_once_and_removed', z3.Implies(self.has_refs, z3.And(
                z3.BoolVal(len(calls) == 1), z3.Not(z3.Select(self.members(st), Val.ref(self.obj.e))),
                z3.ForAll([x], z3.Implies(x != Val.ref(self.obj.e), z3.Select(self.members(st), x) == z3.Select(self.members0, x))))))
            if locked and calls:
                ex.oblige(st, 'inside_the_table_lock', z3.BoolVal(all(any(k.endswith('._lock') for k in lk)
                                                                      for lk in st.ghost.get('c:helper_locked', ()))))
    Remove.fn = fn
    Remove.__name__ = 'Remove_' + fn
    return Remove


def _mk_update(fn, locked):
    class Update(_Wrapper):
        id = f'C11.{fn}'
        helper = '_update_indices'
        doc = (f'{fn}(obj): an object that is not stored is refused (ValueError, nothing changes); a stored one is '
               're-indexed by exactly one _update_indices(obj) (C11.update_indices)' + (' inside the table lock' if locked else '')
               + '; the object set is never changed')

        def post(self, ex, st0, st, outcome, b):
            calls = self.helper_calls(st)
            ex.oblige(st, 'object_set_untouched', self.members(st) == self.members0)
            ex.oblige(st, 'unknown_object_refused', z3.Implies(z3.Not(self.is_member), z3.BoolVal(
                outcome[0] == 'exc' and outcome[1].cls == 'ValueError' and len(calls) == 0)))
            ex.oblige(st, 'stored_object_reindexed_once', z3.Implies(self.is_member, z3.BoolVal(len(calls) == 1)))
            if locked and calls:
                ex.oblige(st, 'inside_the_table_lock', z3.BoolVal(all(any(k.endswith('._lock') for k in lk)
                                                                      for lk in st.ghost.get('c:helper_locked', ()))))
    Update.fn = fn
    Update.__name__ = 'Update_' + fn
    return Update


@register
class AddObjectCore(_Wrapper):
    id = 'C11.add_object_core'
    fn = '_add_object'
    helper = '_mk_indices'
    doc = ('_add_object(obj): the object enters the object set and is indexed by exactly one _mk_indices(obj) '
           '(C11.mk_indices); when indexing rejects it (duplicate key of a unique index) the object is taken out of the '
           'object set again - the set is exactly what it was - and the rejection propagates')

    def post(self, ex, st0, st, outcome, b):
        calls = self.helper_calls(st)
        ex.oblige(st, 'indexed_exactly_once', z3.BoolVal(len(calls) == 1))
        x = z3.Const('x!add', Val)
        if outcome[0] == 'exc':
            ex.oblige(st, 'only_the_rejection_escapes', z3.BoolVal('_mk_indices' in outcome[1].origin), info={'exc': repr(outcome[1])})
            ex.oblige(st, 'rejected_insertion_leaves_the_object_set_as_it_was', z3.Implies(
                z3.Not(self.is_member), self.members(st) == self.members0))
            return
        ex.oblige(st, 'object_set_gains_exactly_obj', z3.And(
            z3.Select(self.members(st), Val.ref(self.obj.e)),
            z3.ForAll([x], z3.Implies(x != Val.ref(self.obj.e), z3.Select(self.members(st), x) == z3.Select(self.members0, x)))))


for _fn, _locked in (('add_object', True), ('add_object_no_lock', False)):
    register(_mk_add(_fn, _locked))
for _fn, _locked in (('remove_object', True), ('remove_object_no_lock', False)):
    register(_mk_remove(_fn, _locked))
for _fn, _locked in (('update_object', True), ('update_object_no_lock', False)):
    register(_mk_update(_fn, _locked))


# ---------------------------------------------------------------------------------------------------------------
# the MDIB tables (mdibbase.py) subclass MultiKeyLookup. The contracts above speak about the base class; they carry over
# because the subclasses only *delegate*: no override manipulates the object set, the back references or the indices
# itself. That is a class-wide syntactic frame, checked exhaustively over every method of the four table classes.
import ast as _ast   # noqa: E402
from pyvc.api import ScanCheck   # noqa: E402

_TABLE_CLASSES = ('_MultikeyWithVersionLookup', 'DescriptorsLookup', 'StatesLookup', 'MultiStatesLookup')
_INTERNALS = ('_objects', '_idx_defs', '_add_object', '_mk_indices', '_rm_indices', '_update_indices')
_PUBLIC_OPS = ('add_object', 'add_object_no_lock', 'add_objects', 'add_objects_no_lock', 'remove_object', 'remove_object_no_lock',
               'remove_objects', 'remove_objects_no_lock', 'update_object', 'update_object_no_lock', 'update_objects',
               'update_objects_no_lock', 'clear')


@register
class TableSubclassesOnlyDelegate(ScanCheck):
    id = 'C11.mdib_tables_only_delegate'
    prop = 'C11'
    doc = ('every method of the MDIB table classes (_MultikeyWithVersionLookup, DescriptorsLookup, StatesLookup, '
           'MultiStatesLookup): an override of a table operation reaches the object set / back references / indices '
           'only through the base-class operation of the same family (super().<op>, self.<op>_no_lock or apply_map over '
           'it), optionally guarded; it never touches _objects, _idx_defs or the index helpers itself and reads '
           '_object_ids only to test whether the object is stored. So the base-class contracts hold for the tables')

    def scan(self, repo):
        mod = repo.module('sdc11073.mdib.mdibbase')
        out = []
        seen = 0
        for cname in _TABLE_CLASSES:
            cdef = mod.classes.get(cname)
            if cdef is None:
                out.append((f'class.{cname}.exists', False, {}))
                continue
            for fn in [n for n in cdef.body if isinstance(n, (_ast.FunctionDef, _ast.AsyncFunctionDef))]:
                seen += 1
                bad = []
                for n in _ast.walk(fn):
                    if isinstance(n, _ast.Attribute) and n.attr in _INTERNALS:
                        bad.append(f'line {n.lineno}: uses {n.attr}')
                    if isinstance(n, _ast.Attribute) and n.attr == '_object_ids':
                        # allowed only as self._object_ids.get(id(obj))
                        ok = False
                        for p in _ast.walk(fn):
                            if isinstance(p, _ast.Call) and isinstance(p.func, _ast.Attribute) and p.func.value is n \
                                    and p.func.attr == 'get':
                                ok = True
                        if not ok:
                            bad.append(f'line {n.lineno}: uses _object_ids other than .get()')
                if fn.name in _PUBLIC_OPS:
                    family = fn.name.split('_')[0]          # add / remove / update / clear
                    delegates = False
                    for n in _ast.walk(fn):
                        if isinstance(n, _ast.Call):
                            callee = _ast.unparse(n.func)
                            args = ' '.join(_ast.unparse(a) for a in n.args)
                            if (callee.startswith('super().') or callee.startswith('self.')) and callee.split('.')[-1].startswith(family) \
                                    and callee.split('.')[-1] in _PUBLIC_OPS:
                                delegates = True
                            if callee == 'apply_map' and f'self.{family}' in args:
                                delegates = True
                    if not delegates:
                        bad.append('does not delegate to a base-class operation of its family')
                out.append((f'method.{cname}.{fn.name}', not bad, {'class': cname, 'method': fn.name, 'findings': '; '.join(bad)}))
        out.append(('methods_scanned', seen >= 15, {'methods': seen}))
        return out
