"""C11 - every MDIB lookup always agrees with a scan of the stored objects (multikey.py)."""
from __future__ import annotations

import z3

from pyvc.api import (FnCheck, LoopSpec, Pure, Inline, register, Build, V, Val, SeqVal, IntS, RealS, BoolS, NONE, Raise,
                      Unsupported, fresh, vany, vint, vbool, vref, as_int, unbox_as, field, TESTER)

MOD = 'sdc11073.multikey'


def key_func_summary(may_raise=True):
    """`self._get_key_func(obj)`: an arbitrary pure function of obj (one symbolic result per execution)."""
    def fn(ex, st, args, kwargs):
        k = st.ghost.get('c:key')
        if k is None:
            k = fresh(Val, 'key')
            st.ghost['c:key'] = k
        return vany(k, maybe_none=True)
    return Pure(fn, name='key function (uninterpreted, pure)', raises=('AttributeError',) if may_raise else ())


class IndexPre:
    """Pre-state of an IndexDefinition (a dict key -> list of objects) with its type invariant."""

    def build(self, b: Build, cls):
        st = b.st
        self.flag = b.bool('index_none_values')
        slf = b.obj('self', cls=(MOD, cls), _index_none_values=self.flag)
        self.slf = slf
        self.obj = b.any('obj')
        dk = z3.Select(st.get_arr('DK'), slf.e)
        dv = z3.Select(st.get_arr('DV'), slf.e)
        k1, k2 = z3.Consts('k1 k2', Val)
        # type invariant: values are list objects, each owned by exactly one key, distinct from the index itself
        st.assume(z3.ForAll([k1], z3.Implies(z3.Select(dk, k1), z3.And(
            Val.is_ref(z3.Select(dv, k1)), Val.oid(z3.Select(dv, k1)) != slf.e,
            Val.oid(z3.Select(dv, k1)) > 0, Val.oid(z3.Select(dv, k1)) < 10 ** 9,
            z3.Select(st.get_arr('C'), Val.oid(z3.Select(dv, k1))) == b.ex.ctx.builtin_class_ids['list']))))
        st.assume(z3.ForAll([k1, k2], z3.Implies(z3.And(z3.Select(dk, k1), z3.Select(dk, k2), k1 != k2),
                                                 z3.Select(dv, k1) != z3.Select(dv, k2))))
        st.assume(z3.Select(st.get_arr('DN'), slf.e) >= 0)
        return slf

    @staticmethod
    def view(st, slf, k):
        """Abstract view: the sequence stored under k (empty when absent)."""
        dk = z3.Select(st.get_arr('DK'), slf.e)
        dv = z3.Select(st.get_arr('DV'), slf.e)
        return z3.If(z3.Select(dk, k), z3.Select(st.get_arr('L'), Val.oid(z3.Select(dv, k))), z3.Empty(SeqVal))

    @staticmethod
    def has(st, slf, k):
        return z3.Select(z3.Select(st.get_arr('DK'), slf.e), k)


class _MkKeysBase(FnCheck, IndexPre):
    prop = 'C11'
    cls = 'IndexDefinition'
    inline = (f'{MOD}:IndexDefinition.__getitem__',)
    container_hints = {}

    def setup(self, b):
        slf = self.build(b, self.cls)
        return slf, [self.obj], {}

    def callees(self, ex):
        return {'self._get_key_func': key_func_summary()}

    def unchanged(self, ex, st0, st, name):
        kq = z3.Const('kq', Val)
        ex.oblige(st, name, z3.ForAll([kq], z3.And(self.has(st, self.slf, kq) == self.has(st0, self.slf, kq),
                                                   self.view(st, self.slf, kq) == self.view(st0, self.slf, kq))))


@register
class MkKeys(_MkKeysBase):
    id = 'C11.mk_keys'
    target = f'{MOD}:IndexDefinition.mk_keys'
    doc = ('IndexDefinition.mk_keys(obj): obj appended to the entry of its key (entry created when absent), every '
           'other entry unchanged; None key with index_none_values=False => no change, returns None')

    def post(self, ex, st0, st, outcome, b):
        key = st.ghost.get('c:key')
        if outcome[0] == 'exc':
            ex.oblige(st, 'only_key_func_exception', z3.BoolVal(outcome[1].cls == 'AttributeError'
                                                               and 'key function' in outcome[1].origin))
            self.unchanged(ex, st0, st, 'exception_no_change')
            return
        r = outcome[1]
        skip = z3.And(z3.Not(self.flag.e), Val.is_none(key))
        rb = st.box(r)
        ex.oblige(st, 'none_key_returns_none', z3.Implies(skip, Val.is_none(rb)))
        kq = z3.Const('kq', Val)
        ex.oblige(st, 'none_key_no_change', z3.Implies(skip, z3.ForAll([kq], z3.And(
            self.has(st, self.slf, kq) == self.has(st0, self.slf, kq),
            self.view(st, self.slf, kq) == self.view(st0, self.slf, kq)))))
        ex.oblige(st, 'entry_extended', z3.Implies(z3.Not(skip), z3.And(
            self.has(st, self.slf, key),
            self.view(st, self.slf, key) == z3.Concat(self.view(st0, self.slf, key), z3.Unit(st.box(self.obj))))))
        ex.oblige(st, 'other_entries_unchanged', z3.Implies(z3.Not(skip), z3.ForAll([kq], z3.Implies(kq != key, z3.And(
            self.has(st, self.slf, kq) == self.has(st0, self.slf, kq),
            self.view(st, self.slf, kq) == self.view(st0, self.slf, kq))))))
        if r.kind != 'none':
            rr = ex.concrete_kind(st, r, ('ref', 'none'))
            if rr.kind == 'ref':
                ex.oblige(st, 'returns_key_list', z3.Implies(z3.Not(skip), st.list_seq(rr) == z3.Unit(key)))
            else:
                ex.oblige(st, 'returns_key_list', z3.Implies(z3.Not(skip), z3.BoolVal(False)))
        else:
            ex.oblige(st, 'returns_key_list', skip)


@register
class UMkKeys(_MkKeysBase):
    id = 'C11.u_mk_keys'
    cls = 'UIndexDefinition'
    target = f'{MOD}:UIndexDefinition.mk_keys'
    doc = ('UIndexDefinition.mk_keys(obj): key already present => KeyError and the index is unchanged; otherwise the '
           'entry [obj] is created and every other entry is unchanged')

    def post(self, ex, st0, st, outcome, b):
        key = st.ghost.get('c:key')
        if key is None:
            # only possible when the key function itself raised
            ok = outcome[0] == 'exc' and outcome[1].cls == 'AttributeError' and 'key function' in outcome[1].origin
            ex.oblige(st, 'key_func_called', z3.BoolVal(ok))
            self.unchanged(ex, st0, st, 'exception_no_change')
            return
        skip = z3.And(z3.Not(self.flag.e), Val.is_none(key))
        had = self.has(st0, self.slf, key)
        if outcome[0] == 'exc':
            cls = outcome[1].cls
            self.unchanged(ex, st0, st, 'exception_no_change')
            if cls == 'KeyError':
                ex.oblige(st, 'keyerror_only_for_duplicate', z3.And(z3.Not(skip), had))
            elif cls == 'ValueError':
                # keys that are lists are rejected for unique indices
                pass
            else:
                ex.oblige(st, 'only_expected_exceptions',
                          z3.BoolVal(cls == 'AttributeError' and 'key function' in outcome[1].origin))
            return
        kq = z3.Const('kq', Val)
        ex.oblige(st, 'duplicate_is_rejected', z3.Implies(z3.Not(skip), z3.Not(had)))
        ex.oblige(st, 'entry_created', z3.Implies(z3.Not(skip), z3.And(
            self.has(st, self.slf, key), self.view(st, self.slf, key) == z3.Unit(st.box(self.obj)))))
        ex.oblige(st, 'other_entries_unchanged', z3.ForAll([kq], z3.Implies(z3.Or(skip, kq != key), z3.And(
            self.has(st, self.slf, kq) == self.has(st0, self.slf, kq),
            self.view(st, self.slf, kq) == self.view(st0, self.slf, kq)))))


@register
class RmKey(FnCheck, IndexPre):
    id = 'C11.rm_key'
    prop = 'C11'
    target = f'{MOD}:IndexDefinition.rm_key'
    inline = (f'{MOD}:IndexDefinition.__getitem__',)
    doc = ('IndexDefinition.rm_key(key, obj): removes the first occurrence of obj from the entry of key, deletes the '
           'entry when it becomes empty, never raises, leaves every other entry unchanged')

    def setup(self, b):
        slf = self.build(b, 'IndexDefinition')
        self.key = b.any('key')
        return slf, [self.key, self.obj], {}

    def post(self, ex, st0, st, outcome, b):
        if outcome[0] == 'exc':
            ex.oblige(st, 'never_raises', z3.BoolVal(False), info={'exc': repr(outcome[1])})
            return
        key, obj = self.key.e, st.box(self.obj)
        old = self.view(st0, self.slf, key)
        new = self.view(st, self.slf, key)
        had = z3.Contains(old, z3.Unit(obj))
        idx = z3.IndexOf(old, z3.Unit(obj), 0)
        removed = z3.Concat(z3.SubSeq(old, 0, idx), z3.SubSeq(old, idx + 1, z3.Length(old) - idx - 1))
        ex.oblige(st, 'first_occurrence_removed', z3.Implies(had, new == removed))
        ex.oblige(st, 'absent_obj_no_change', z3.Implies(z3.Not(had), z3.And(
            new == old, self.has(st, self.slf, key) == self.has(st0, self.slf, key))))
        ex.oblige(st, 'empty_entry_deleted', z3.Implies(z3.And(had, z3.Length(old) == 1),
                                                        z3.Not(self.has(st, self.slf, key))))
        ex.oblige(st, 'nonempty_entry_kept', z3.Implies(z3.And(had, z3.Length(old) > 1), self.has(st, self.slf, key)))
        kq = z3.Const('kq', Val)
        ex.oblige(st, 'other_entries_unchanged', z3.ForAll([kq], z3.Implies(kq != key, z3.And(
            self.has(st, self.slf, kq) == self.has(st0, self.slf, kq),
            self.view(st, self.slf, kq) == self.view(st0, self.slf, kq)))))


# re-index discipline at the in-place update sites (an object changed in place must be re-indexed AFTER the change):
# provider commit of a descriptor update and the consumer's description-modification handler
from contracts import C02 as _c02   # noqa: E402
from contracts import C01 as _c01   # noqa: E402


@register
class ProviderReindexAfterUpdate(_c02.DescriptorProcessTransaction):
    id = 'C11.provider_descriptor_commit_reindexes_after_update'
    prop = 'C11'


@register
class ConsumerReindexAfterUpdate(_c01.DescriptionModifications):
    id = 'C11.consumer_description_update_reindexes_after_update'
    prop = 'C11'
