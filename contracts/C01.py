"""C01 - the consumer MDIB mirrors the provider MDIB after any report history."""
from __future__ import annotations

import z3

from pyvc.api import (FnCheck, LemmaCheck, LoopSpec, Pure, register, Build, V, Val, SeqVal, IntS, BoolS, NONE, Raise,
                      Unsupported, fresh, vany, vint, vbool, vref, truthy)
from contracts import C06 as _c06

CB = 'sdc11073.mdib.containerbase'
SC = 'sdc11073.mdib.statecontainers'
DC = 'sdc11073.mdib.descriptorcontainers'
CM = 'sdc11073.mdib.consumermdib'

COPY = z3.Function('copy_of', Val, Val)     # copy.copy(v): a value equal to v (trusted)


@register
class UpdateFromOther(FnCheck):
    id = 'C01.update_from_other'
    prop = 'C01'
    tag = 'S'
    opaque_ok = True
    target = f'{CB}:ContainerBase._update_from_other'
    doc = ('_update_from_other(other, skipped): for every container property of the object (arbitrary element of '
           'sorted_container_properties) that is not skipped, the value read from `other` under the same name is '
           'written to self under that name (as copy.copy of it); skipped properties are not written; nothing of '
           '`other` is written')
    trusted = ('copy.copy(v) equals v', 'getattr/setattr act on the named member')

    def setup(self, b):
        self.o = b.obj('self', cls=(CB, 'ContainerBase'))
        self.other = b.obj('other')
        b.distinct(self.o, self.other)
        self.skip_none = b.bool('skipped_is_none')
        self.skipped = b.obj('skipped_list')
        st = b.st
        st.assume(z3.Select(st.get_arr('C'), self.skipped.e) == b.ex.ctx.builtin_class_ids['list'])
        self.skip_seq = z3.Const('skipped_seq', SeqVal)
        st.assume(z3.Select(st.get_arr('L'), self.skipped.e) == self.skip_seq)
        sk = vany(z3.If(self.skip_none.e, Val.none, Val.ref(self.skipped.e)), maybe_none=True, path='skipped_properties')
        return self.o, [self.other, sk], {}

    def callees(self, ex):
        def props(ex_, st, args, kwargs):
            r = st.alloc('list')
            st.set_list_seq(r, z3.Const('props', SeqVal))
            st.ghost['c:props_of'] = st.ghost.get('c:recv')
            return r

        def getattr_(ex_, st, args, kwargs):
            v = vany(fresh(Val, 'propval'))
            st.ghost['c:got'] = st.ghost.get('c:got', ()) + ((st.box(args[0]), st.box(args[1]), v.e),)
            return v

        def setattr_(ex_, st, args, kwargs):
            st.ghost['sets'] = st.ghost.get('sets', ()) + ((st.box(args[0]), st.box(args[1]), st.box(args[2])),)
            return NONE
        return {'copy.copy': Pure(lambda e, st, a, k: vany(COPY(st.box(a[0]))), name='copy.copy(v) == v', trusted=True),
                f'{CB}:ContainerBase.sorted_container_properties': Pure(props, name='sorted_container_properties (C05)'),
                'getattr': Pure(getattr_, name='getattr(obj, name)'), 'setattr': Pure(setattr_, name='setattr(obj, name, value)')}

    def hooks(self, ex):
        class H:
            tracked_names = ('setattr', 'getattr')

            @staticmethod
            def on_loop_havoc(ex_, st, node):
                st.ghost['sets'] = ()
                st.ghost['c:got'] = ()

            @staticmethod
            def on_attr_write(ex_, st, o, attr, val, node):
                st.ghost['writes'] = st.ghost.get('writes', ()) + ((st.box(o), attr),)
                return None
        return H

    def loops(self, ex):
        def body(ex_, st, env):
            if env['_phase'] != 'preserve':
                return z3.BoolVal(True)
            sets, got = st.ghost.get('sets', ()), st.ghost.get('c:got', ())
            # the loop variable is a pair (name, descriptor object)
            item = env['_seq'][env['_k'] - 1]
            ob = lambda n, f: ex_.oblige(st, 'property.' + n, f, kind='loop')   # noqa: E731
            ob('at_most_one_member_written', z3.BoolVal(len(sets) <= 1 and len(got) == len(sets)))
            if len(sets) == 1 and len(got) == 1:
                tgt, name, val = sets[0]
                ob('written_on_self', tgt == Val.ref(self.o.e))
                ob('read_from_other_under_the_same_name', z3.And(got[0][0] == Val.ref(self.other.e), got[0][1] == name))
                ob('value_is_a_copy_of_the_value_read', val == COPY(got[0][2]))
            st.ghost['c:wrote'] = st.ghost.get('c:wrote', 0) + len(sets)
            return z3.BoolVal(True)
        return {0: LoopSpec(inv=body, havoc_heap=[])}

    def finish(self, ex, st0, outcomes, b):
        names = {o.name for o in ex.ctx.obligations}
        ex.oblige(st0, 'every_unskipped_member_is_copied', z3.BoolVal('property.value_is_a_copy_of_the_value_read' in names))

    def post(self, ex, st0, st, outcome, b):
        if outcome[0] == 'exc':
            return
        ex.oblige(st, 'other_is_never_written', z3.BoolVal(all(
            z3.is_false(z3.simplify(t == Val.ref(self.other.e))) for t, _ in st.ghost.get('writes', ()))))


class _UpdateFromOtherContainer(FnCheck):
    prop = 'C01'
    key = 'DescriptorHandle'
    extra_key = None

    def setup(self, b):
        self.k_self, self.k_other = b.str(self.key + '_self'), b.str(self.key + '_other')
        fields_s, fields_o = {self.key: self.k_self}, {self.key: self.k_other}
        if self.extra_key:
            self.x_self, self.x_other = b.any(self.extra_key + '_self', maybe_none=True), b.any(self.extra_key + '_other')
            fields_s[self.extra_key] = self.x_self
            fields_o[self.extra_key] = self.x_other
        self.node = b.any('node_of_other', maybe_none=True)
        self.o = b.obj('self', cls=self.cls, **fields_s)
        self.other = b.obj('other', node=self.node, **fields_o)
        b.distinct(self.o, self.other)
        b.st.ghost['log'] = ()
        return self.o, [self.other], {}

    optional_fields = ('Handle', 'node')

    def callees(self, ex):
        def upd(ex_, st, args, kwargs):
            st.ghost['log'] += ((st.ghost.get('c:recv'), st.box(args[0]), st.box(args[1]) if len(args) > 1 else Val.none),)
            return NONE
        return {f'{CB}:ContainerBase._update_from_other': Pure(upd, name='_update_from_other (C01.update_from_other)')}

    def hooks(self, ex):
        class H:
            tracked_names = ()

            def on_call(self, ex_, st, fv, keys, args, kwargs, node):
                if fv.t == 'method':
                    st.ghost['c:recv'] = st.box(fv.recv)
                elif fv.t == 'repo' and getattr(fv, 'self_v', None) is not None:
                    st.ghost['c:recv'] = st.box(fv.self_v)
                return None
        return H()

    def same(self):
        eq = self.k_self.e == self.k_other.e
        if self.extra_key:
            eq = z3.And(eq, z3.Or(Val.is_none(self.x_self.e), self.x_self.e == self.x_other.e))
        return eq

    def post(self, ex, st0, st, outcome, b):
        log = st.ghost['log']
        if outcome[0] == 'exc':
            ex.oblige(st, 'refused_only_for_a_different_entity', z3.And(z3.BoolVal(outcome[1].cls == 'ValueError'), z3.Not(self.same())),
                      info={'exc': repr(outcome[1])})
            ex.oblige(st, 'refusal_changes_nothing', z3.BoolVal(len(log) == 0))
            return
        ex.oblige(st, 'accepted_only_for_the_same_entity', self.same())
        ex.oblige(st, 'all_members_copied_from_the_given_container_exactly_once', z3.And(
            log[0][0] == Val.ref(self.o.e), log[0][1] == Val.ref(self.other.e), Val.is_none(log[0][2]))
            if len(log) == 1 else z3.BoolVal(False))


def _mk_ufoc(idn, mod, cls, key, extra=None):
    ns = {'id': f'C01.{idn}', 'target': f'{mod}:{cls}.update_from_other_container', 'cls': (mod, cls), 'key': key,
          'extra_key': extra,
          'doc': f'{cls}.update_from_other_container(other): ValueError and no change iff `other` describes another '
                 f'entity ({key}{" / " + extra if extra else ""} differs); otherwise every member is copied from `other` '
                 f'(one call of _update_from_other without skipped members)'}
    return register(type('UFOC_' + idn, (_UpdateFromOtherContainer,), ns))


_mk_ufoc('state_update_from_other', SC, 'AbstractStateContainer', 'DescriptorHandle')
_mk_ufoc('descriptor_update_from_other', DC, 'AbstractDescriptorContainer', 'Handle')


# the table-level behaviour of the consumer's report handlers is the C06 contract, re-checked under this property
@register
class UpdateStates(_c06.UpdateFromStatesReport):
    id = 'C01.update_states'
    prop = 'C01'


@register
class UpdateContextStates(_c06.UpdateFromContextStatesReport):
    id = 'C01.update_context_states'
    prop = 'C01'


@register
class UpdateVersionGroup(_c06.UpdateVersionGroup if hasattr(_c06, 'UpdateVersionGroup') else object):
    id = 'C01.update_version_group'
    prop = 'C01'


# ---------------------------------------------------------------------------------------------------------------
# Mirror lemma: one committed transaction + its report + the consumer's handler keep "consumer == provider".
# The hypotheses are the postconditions of the named contracts, transcribed over abstract tables
# (handle -> present?, version, value); the induction over the history is the usual one (init_mdib gives the base
# case: C06.reload_all loads exactly the GetMdib response, C07 shows that response is a snapshot).
Hs = Val
ArrB, ArrI, ArrV = z3.ArraySort(Hs, BoolS), z3.ArraySort(Hs, IntS), z3.ArraySort(Hs, Val)


def _tbl(name):
    return z3.Const(name + '_has', ArrB), z3.Const(name + '_ver', ArrI), z3.Const(name + '_val', ArrV)


@register
class MirrorStep(LemmaCheck):
    id = 'C01.mirror_step'
    prop = 'C01'
    doc = ('lemma over the contracts: if the consumer tables equal the provider tables before a transaction, the '
           'transaction bumps the version of exactly the states it changes (C02), the report carries exactly those '
           'states with their committed version and value and the committed MdibVersion (C04), XML transport is lossless '
           '(C05) and the consumer handler overwrites a stored state iff the report state is newer, copying all members '
           '(C06/C01.update_states, C01.state_update_from_other, C01.update_from_other), then the consumer tables equal '
           'the provider tables after the transaction, and the notification names exactly the changed handles; the same '
           'for description modifications (create / update / delete)')
    trusted = ('hypotheses are hand transcriptions of the postconditions of C02.version_increments, C04.send_episodic_reports, '
               'C04.fill_episodic_report_body, C05.attribute_roundtrip, C06/C01.update_states, C01.update_from_other; '
               'the induction over the history and the base case (init_mdib) are argued in DESIGN.md, not mechanised')

    def lemmas(self):
        h = z3.Const('h', Hs)
        P0, P1, C0, C1, R = _tbl('P0'), _tbl('P1'), _tbl('C0'), _tbl('C1'), _tbl('R')
        D = z3.Const('changed_by_tx', ArrB)
        N = z3.Const('notified', ArrB)
        vP0, vP1, vC0, vC1, vR = z3.Ints('mdib_P0 mdib_P1 mdib_C0 mdib_C1 mdib_R')

        def eq_tables(a, b):
            return z3.ForAll([h], z3.And(a[0][h] == b[0][h], z3.Implies(a[0][h], z3.And(a[1][h] == b[1][h], a[2][h] == b[2][h]))))
        mirror0 = z3.And(eq_tables(P0, C0), vP0 == vC0)
        # C02: a state transaction changes existing states only, bumps their version by one, leaves the others alone
        tx = z3.And(
            z3.ForAll([h], z3.Implies(D[h], z3.And(P0[0][h], P1[0][h], P1[1][h] == P0[1][h] + 1))),
            z3.ForAll([h], z3.Implies(z3.Not(D[h]), z3.And(P1[0][h] == P0[0][h], P1[1][h] == P0[1][h], P1[2][h] == P0[2][h]))),
            vP1 == vP0 + 1)
        # C04 + C05: the report holds exactly the changed states as committed, labelled with the committed version
        report = z3.And(z3.ForAll([h], z3.And(R[0][h] == D[h], z3.Implies(D[h], z3.And(R[1][h] == P1[1][h], R[2][h] == P1[2][h])))),
                        vR == vP1)
        # C06 / C01: gate on the MdibVersion, then per state: overwrite iff newer (or unknown), copy everything
        accept = vR > vC0
        upd = z3.And(
            accept, vC1 == vR,
            z3.ForAll([h], N[h] == z3.And(R[0][h], z3.Or(z3.Not(C0[0][h]), R[1][h] > C0[1][h]))),
            z3.ForAll([h], z3.Implies(N[h], z3.And(C1[0][h], C1[1][h] == R[1][h], C1[2][h] == R[2][h]))),
            z3.ForAll([h], z3.Implies(z3.Not(N[h]), z3.And(C1[0][h] == C0[0][h], C1[1][h] == C0[1][h], C1[2][h] == C0[2][h]))))
        hyps = [mirror0, tx, report, upd]
        out = [('state_report_keeps_the_mirror', hyps, z3.And(eq_tables(P1, C1), vP1 == vC1)),
               ('state_notification_names_exactly_the_changed_states', hyps, z3.ForAll([h], N[h] == D[h])),
               ('report_of_a_commit_is_always_accepted', [mirror0, tx, report], accept)]
        # description modification: created / updated / deleted descriptor sets, pairwise disjoint
        Cr, Up, De = z3.Const('created', ArrB), z3.Const('updated', ArrB), z3.Const('deleted', ArrB)
        dtx = z3.And(
            z3.ForAll([h], z3.Not(z3.Or(z3.And(Cr[h], Up[h]), z3.And(Cr[h], De[h]), z3.And(Up[h], De[h])))),
            z3.ForAll([h], z3.Implies(Cr[h], z3.And(z3.Not(P0[0][h]), P1[0][h]))),
            z3.ForAll([h], z3.Implies(Up[h], z3.And(P0[0][h], P1[0][h], P1[1][h] == P0[1][h] + 1))),
            z3.ForAll([h], z3.Implies(De[h], z3.And(P0[0][h], z3.Not(P1[0][h])))),
            z3.ForAll([h], z3.Implies(z3.Not(z3.Or(Cr[h], Up[h], De[h])), z3.And(P1[0][h] == P0[0][h], P1[1][h] == P0[1][h], P1[2][h] == P0[2][h]))),
            vP1 == vP0 + 1)
        # report parts (C04 native / description body): each modified descriptor once, with its committed content
        dreport = z3.And(z3.ForAll([h], z3.Implies(z3.Or(Cr[h], Up[h]), z3.And(R[1][h] == P1[1][h], R[2][h] == P1[2][h]))), vR == vP1)
        # consumer (C01.description_modifications): create -> add, update -> overwrite all members, delete -> remove
        dupd = z3.And(
            vR > vC0, vC1 == vR,
            z3.ForAll([h], z3.Implies(Cr[h], z3.And(C1[0][h], C1[1][h] == R[1][h], C1[2][h] == R[2][h]))),
            z3.ForAll([h], z3.Implies(Up[h], z3.And(C1[0][h] == C0[0][h], z3.Implies(C0[0][h], z3.And(C1[1][h] == R[1][h], C1[2][h] == R[2][h]))))),
            z3.ForAll([h], z3.Implies(De[h], z3.Not(C1[0][h]))),
            z3.ForAll([h], z3.Implies(z3.Not(z3.Or(Cr[h], Up[h], De[h])), z3.And(C1[0][h] == C0[0][h], C1[1][h] == C0[1][h], C1[2][h] == C0[2][h]))))
        out.append(('description_report_keeps_the_mirror', [mirror0, dtx, dreport, dupd], z3.And(eq_tables(P1, C1), vP1 == vC1)))
        # sanity: the hypotheses are satisfiable together (no vacuous lemma): proved by exhibiting the negation as unprovable
        return out


# ---------------------------------------------------------------------------------------------------------------
@register
class DescriptionModifications(FnCheck):
    id = 'C01.description_modifications'
    prop = 'C01'
    tag = 'S'
    opaque_ok = True
    target = f'{CM}:ConsumerMdib._process_incoming_description_modifications'
    doc = ('_process_incoming_description_modifications: nothing is touched unless the MdibVersion gate accepts the '
           'report; then per report part (arbitrary iteration of each loop): CREATE adds every descriptor of the part to '
           'the descriptions table and names it in new_descriptors, and adds every state to the table of its kind after '
           'linking its descriptor; UPDATE overwrites the stored descriptor of the same handle from the report '
           'descriptor and re-indexes it, names it in updated_descriptors, and overwrites + re-indexes the stored state '
           'looked up by Handle (context) / DescriptorHandle; DELETE removes the descriptor by handle and names it in '
           'deleted_descriptors; the observables are assigned from exactly these dicts, description_modifications always')
    trusted = ('table operations add_object / update_object / rm_descriptor_by_handle (C11 leaf contracts, bounded table check)',)

    def setup(self, b):
        st = b.st
        self.tables = {}
        for t in ('descriptions', 'states', 'context_states'):
            idx_h, idx_d = b.obj(t + '.handle'), b.obj(t + '.descriptor_handle')
            self.tables[t] = b.obj(t, handle=idx_h, descriptor_handle=idx_d)
            self.tables[t + '.handle'], self.tables[t + '.descriptor_handle'] = idx_h, idx_d
        self.accept = b.bool('gate_accepts')
        self.o = b.obj('self', cls=(CM, 'ConsumerMdib'), descriptions=self.tables['descriptions'],
                       states=self.tables['states'], context_states=self.tables['context_states'])
        parts = b.obj('report_parts')
        st.assume(z3.Select(st.get_arr('C'), parts.e) == b.ex.ctx.builtin_class_ids['list'])
        self.report = b.obj('report', ReportPart=parts)
        self.group = b.obj('mdib_version_group', mdib_version=b.int('report_mdib_version'))
        b.distinct(self.o, self.report, self.group, parts, *self.tables.values())
        st.ghost['calls'] = ()
        st.ghost['c:all'] = ()
        return self.o, [self.group, self.report], {}

    field_types = {'is_context_state': 'bool', 'is_context_descriptor': 'bool'}
    stable_fields = ('Handle', 'DescriptorHandle', 'is_context_state', 'is_context_descriptor', 'handle', 'descriptor_handle',
                     'descriptions', 'states', 'context_states')

    def name_of_table(self, e):
        for n, t in self.tables.items():
            if z3.is_true(z3.simplify(e == Val.ref(t.e))):
                return n
        return None

    def callees(self, ex):
        def gate(ex_, st, args, kwargs):
            st.ghost['c:gate_asked'] = st.box(args[0])
            return vbool(self.accept.e)

        def group(ex_, st, args, kwargs):
            st.ghost['c:group_set'] = st.box(args[0])
            return NONE
        return {f'{CM}:ConsumerMdib._can_accept_mdib_version': Pure(gate, name='MdibVersion gate (C06.can_accept_mdib_version)'),
                f'{CM}:ConsumerMdib._update_from_mdib_version_group': Pure(group, name='C06.update_version_group')}

    LOGGED = ('add_object', 'add_object_no_lock', 'update_object', 'remove_object_no_lock', 'rm_descriptor_by_handle',
              'update_from_other_container', '_set_descriptor_container_reference', 'get_one')

    def hooks(self, ex):
        chk = self

        class H:
            tracked_names = chk.LOGGED + ('description_modifications', 'new_descriptors_by_handle',
                                          'updated_descriptors_by_handle', 'deleted_descriptors_by_handle')

            @staticmethod
            def on_loop_havoc(ex_, st, node):
                st.ghost['calls'] += (('#loop', ex_.loop_ordinal(node)),)

            @staticmethod
            def on_call(ex_, st, fv, keys, args, kwargs, node):
                name = getattr(fv, 'name', None) or (fv.fn.name if fv.t == 'repo' else None)
                if name not in chk.LOGGED:
                    return None
                recv = fv.recv if fv.t == 'method' else getattr(fv, 'self_v', None)
                rec = (name, st.box(recv) if recv is not None else None, tuple(st.box(a) for a in args),
                       tuple(sorted((k, st.box(v)) for k, v in kwargs.items())))
                st.ghost['calls'] += (rec,)
                st.ghost['c:all'] = st.ghost['c:all'] + (name,)
                if name == 'get_one':
                    found = vany(fresh(Val, 'stored'), maybe_none=True)
                    st.assume(z3.Or(Val.is_none(found.e), z3.And(Val.is_ref(found.e), Val.oid(found.e) > 0, Val.oid(found.e) < 10 ** 9)))
                    st.ghost['c:found'] = found.e
                    return [(st, found)]
                return [(st, NONE)]

            @staticmethod
            def on_attr_write(ex_, st, o, attr, val, node):
                if attr in ('description_modifications', 'new_descriptors_by_handle', 'updated_descriptors_by_handle',
                            'deleted_descriptors_by_handle'):
                    st.ghost['c:obs'] = st.ghost.get('c:obs', ()) + ((attr, st.box(val)),)
                    local = {'new_descriptors_by_handle': 'new_descriptor_by_handle',
                             'updated_descriptors_by_handle': 'updated_descriptor_by_handle',
                             'deleted_descriptors_by_handle': 'deleted_descriptor_by_handle'}.get(attr)
                    if local is not None:
                        d = st.locals.get(local)
                        ex_.oblige(st, f'{attr}.published_from_its_own_dict',
                                   st.box(val) == Val.ref(d.e) if d is not None else z3.BoolVal(False))
                        ex_.oblige(st, f'{attr}.published_only_when_not_empty',
                                   z3.Select(st.get_arr('DN'), d.e) > 0 if d is not None else z3.BoolVal(False))
                    return [(st, None)]
                return None
        return H

    # -- per-iteration contracts ---------------------------------------------------------------------------------
    @staticmethod
    def _item(st, var):
        """The loop variable of the current iteration (the iterables are opaque lxml-backed lists)."""
        return st.box(st.locals[var])

    def _dict_has(self, st, local, key, val):
        d = st.locals[local]
        return z3.And(z3.Select(z3.Select(st.get_arr('DK'), d.e), key), z3.Select(z3.Select(st.get_arr('DV'), d.e), key) == val)

    def loops(self, ex):
        def fld(st, name, v):
            return z3.Select(st.get_arr('f:' + name), Val.oid(v))

        def kind_table(st, item):
            is_ctx = fld(st, 'is_context_state', item)
            return z3.If(Val.b(is_ctx), Val.ref(self.tables['context_states'].e), Val.ref(self.tables['states'].e))

        def mk(body, ordinal, havoc=('DK', 'DV', 'DN')):
            def inv(ex_, st, env):
                if env['_phase'] == 'preserve':
                    calls = st.ghost['calls']
                    heads = [i for i, c in enumerate(calls) if c == ('#loop', ordinal)]
                    own = tuple(c for c in calls[heads[-1] + 1:] if c[0] != '#loop') if heads else ()
                    body(ex_, st, env, lambda n, f: ex_.oblige(st, n, f, kind='loop'), own)
                return z3.BoolVal(True)
            return LoopSpec(inv=inv, havoc_heap=list(havoc))

        def create_descr(ex_, st, env, ob, calls):
            item = self._item(st, 'descriptor_container')
            ob('create.descriptor_added_to_descriptions_exactly_once', z3.And(
                z3.BoolVal(len(calls) == 1 and calls[0][0] == 'add_object'), calls[0][1] == Val.ref(self.tables['descriptions'].e),
                calls[0][2][0] == item) if calls else z3.BoolVal(False))
            ob('create.descriptor_named_in_new_descriptors', self._dict_has(st, 'new_descriptor_by_handle', fld(st, 'Handle', item), item))

        def create_state(ex_, st, env, ob, calls):
            item = self._item(st, 'state_container')
            names = [c[0] for c in calls]
            ob('create.state_linked_then_added_to_the_table_of_its_kind', z3.And(
                z3.BoolVal(names == ['_set_descriptor_container_reference', 'add_object_no_lock']),
                calls[0][2][0] == item, calls[1][2][0] == item, calls[1][1] == kind_table(st, item))
                if len(calls) == 2 else z3.BoolVal(False))

        def update_descr(ex_, st, env, ob, calls):
            item = self._item(st, 'descriptor_container')
            names = [c[0] for c in calls]
            ob('update.stored_descriptor_looked_up_by_handle', z3.And(
                z3.BoolVal(names[:1] == ['get_one']), calls[0][1] == Val.ref(self.tables['descriptions.handle'].e),
                calls[0][2][0] == fld(st, 'Handle', item), z3.BoolVal(('allow_none', Val.bool(True)) in
                                                                       [(k, z3.simplify(v)) for k, v in calls[0][3]]))
                if calls else z3.BoolVal(False))
            found = st.ghost.get('c:found')
            if found is not None and len(calls) >= 1:
                rest = [c for c in calls[1:] if c[0] in ('update_from_other_container', 'update_object')]
                exists = z3.Not(Val.is_none(found))
                ob('update.stored_descriptor_overwritten_and_reindexed', z3.Implies(exists, z3.And(
                    z3.BoolVal([c[0] for c in rest] == ['update_from_other_container', 'update_object']),
                    rest[0][1] == found, rest[0][2][0] == item, rest[1][1] == Val.ref(self.tables['descriptions'].e),
                    rest[1][2][0] == found) if len(rest) == 2 else z3.BoolVal(False)))
                ob('update.unknown_descriptor_is_not_invented', z3.Implies(z3.Not(exists), z3.BoolVal(len(rest) == 0)))
            ob('update.descriptor_named_in_updated_descriptors', self._dict_has(st, 'updated_descriptor_by_handle', fld(st, 'Handle', item), item))

        def update_state(ex_, st, env, ob, calls):
            item = self._item(st, 'state_container')
            names = [c[0] for c in calls]
            is_ctx = Val.b(fld(st, 'is_context_state', item))
            tbl = z3.If(is_ctx, Val.ref(self.tables['context_states'].e), Val.ref(self.tables['states'].e))
            idx = z3.If(is_ctx, Val.ref(self.tables['context_states.handle'].e), Val.ref(self.tables['states.descriptor_handle'].e))
            key = z3.If(is_ctx, fld(st, 'Handle', item), fld(st, 'DescriptorHandle', item))
            ob('update.stored_state_looked_up_by_its_key', z3.And(
                z3.BoolVal(names[:1] == ['get_one']), calls[0][1] == idx, calls[0][2][0] == key) if calls else z3.BoolVal(False))
            found = st.ghost.get('c:found')
            if found is not None and calls:
                rest = calls[1:]
                exists = z3.Not(Val.is_none(found))
                ob('update.stored_state_overwritten_and_reindexed', z3.Implies(exists, z3.And(
                    z3.BoolVal([c[0] for c in rest] == ['update_from_other_container', 'update_object']),
                    rest[0][1] == found, rest[0][2][0] == item, rest[1][1] == tbl, rest[1][2][0] == found)
                    if len(rest) == 2 else z3.BoolVal(False)))
                ob('update.unknown_state_is_not_invented', z3.Implies(z3.Not(exists), z3.BoolVal(len(rest) == 0)))

        def delete_descr(ex_, st, env, ob, calls):
            item = self._item(st, 'descriptor_container')
            ob('delete.descriptor_removed_by_handle_exactly_once', z3.And(
                z3.BoolVal(len(calls) == 1 and calls[0][0] == 'rm_descriptor_by_handle'), calls[0][2][0] == fld(st, 'Handle', item))
                if calls else z3.BoolVal(False))
            ob('delete.descriptor_named_in_deleted_descriptors', self._dict_has(st, 'deleted_descriptor_by_handle', fld(st, 'Handle', item), item))

        def delete_state(ex_, st, env, ob, calls):
            item = self._item(st, 'state_container')
            ob('delete.state_removed_from_the_table_of_its_kind', z3.And(
                z3.BoolVal(len(calls) == 1 and calls[0][0] == 'remove_object_no_lock'), calls[0][1] == kind_table(st, item),
                calls[0][2][0] == item) if calls else z3.BoolVal(False))

        def obsolete_ctx(ex_, st, env, ob, calls):
            names = [c[0] for c in calls]
            ob('update.obsolete_context_state_removed_from_context_states', z3.And(
                z3.BoolVal(names == ['get_one', 'remove_object_no_lock']), calls[0][1] == Val.ref(self.tables['context_states.handle'].e),
                calls[1][1] == Val.ref(self.tables['context_states'].e), calls[1][2][0] == st.ghost['c:found'])
                if len(calls) == 2 else z3.BoolVal(False))
        return {0: LoopSpec(inv=lambda e, s, env: z3.BoolVal(True), havoc_heap=['DK', 'DV', 'DN']),
                1: mk(create_descr, 1), 2: mk(create_state, 2), 3: mk(update_descr, 3), 4: mk(obsolete_ctx, 4, havoc=()),   # its body performs table calls only
               
                5: mk(update_state, 5), 6: mk(delete_descr, 6), 7: mk(delete_state, 7)}

    def finish(self, ex, st0, outcomes, b):
        names = {o.name for o in ex.ctx.obligations}
        for n in ('create.descriptor_added_to_descriptions_exactly_once', 'create.state_linked_then_added_to_the_table_of_its_kind',
                  'update.stored_descriptor_overwritten_and_reindexed', 'update.stored_state_overwritten_and_reindexed',
                  'delete.descriptor_removed_by_handle_exactly_once'):
            ex.oblige(st0, 'handles_' + n.split('.')[0] + '_parts.' + n.split('.')[1], z3.BoolVal(n in names))

    def post(self, ex, st0, st, outcome, b):
        obs = dict(st.ghost.get('c:obs', ()))
        ex.oblige(st, 'complete_report_always_published', obs.get('description_modifications') == Val.ref(self.report.e)
                  if 'description_modifications' in obs else z3.BoolVal(False))
        touched = [n for n in st.ghost['c:all']]
        ex.oblige(st, 'rejected_report_touches_no_table', z3.Implies(z3.Not(self.accept.e), z3.BoolVal(not touched)))
        if 'c:gate_asked' in st.ghost:
            ex.oblige(st, 'gate_asked_with_the_report_version', st.ghost['c:gate_asked'] == z3.Select(st0.get_arr('f:mdib_version'), self.group.e))
        else:
            ex.oblige(st, 'gate_asked_with_the_report_version', z3.BoolVal(False))
        if 'c:group_set' in st.ghost:
            ex.oblige(st, 'version_group_taken_from_the_report', st.ghost['c:group_set'] == Val.ref(self.group.e))


# Provider-side obligation the mirror depends on: a description update lists EVERY context state of an updated context
# descriptor (the consumer drops the ones a report part does not list). Under contract in C02, re-checked here.
from contracts import C02 as _c02   # noqa: E402


@register
class DescriptionUpdateListsEveryContextState(_c02.UpdateCorrespondingContextStates):
    id = 'C01.description_update_lists_every_context_state'
    prop = 'C01'


# --------------------------------------------------------------------------------------------------------------------
# the third mechanism of the property - initial GetMdib with buffering of early notifications - is proved under C06
# (reload_all, _pre_check_report_ok) and re-checked here: a report delivered while the consumer loads its MDIB is either
# appended to the buffer before the replay (both happen inside the buffer lock) or sees the state `initialized`
def _rereg_c01(base, new_id, doc):
    cls = type('C01_' + base.__name__, (base,), {'id': new_id, 'prop': 'C01', 'doc': doc})
    register(cls)


_rereg_c01(_c06.ReloadAll, 'C01.initial_load_loses_no_report',
           'reload_all (C06.reload_all re-checked): buffering starts before the tables are cleared, every buffered report '
           'that is newer than the loaded MDIB is replayed in order, the buffer is emptied and the state becomes '
           '`initialized` as the last step INSIDE the buffer lock - no report can fall between replay and switch')
_rereg_c01(_c06.PreCheck, 'C01.early_reports_are_buffered_under_the_buffer_lock',
           '_pre_check_report_ok (C06.pre_check_report re-checked): while initializing a report is appended to the buffer '
           'only after the state was read again inside the buffer lock; buffered xor processed')
