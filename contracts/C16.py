"""C16 - location scopes round-trip; location filtering tolerates foreign scopes."""
from __future__ import annotations

import z3

from pyvc.api import (FnCheck, LoopSpec, Pure, Inline, register, Build, V, Val, SeqVal, IntS, RealS, BoolS, StrS, NONE,
                      Raise, Unsupported, fresh, vany, vint, vbool, vbytes, vstr, vref, as_int, unbox_as, truthy)

LOC = 'sdc11073.location'
ELEMS = ('fac', 'bldng', 'flr', 'poc', 'rm', 'bed')


def mk_loc(b, name):
    f = {}
    for e in ELEMS:
        f[e] = b.any(f'{name}.{e}', maybe_none=True)
        b.st.assume(z3.Or(Val.is_none(f[e].e), Val.is_str(f[e].e)))
    f['_root'] = b.any(f'{name}._root')
    b.st.assume(Val.is_str(f['_root'].e))
    return b.obj(name, cls=(LOC, 'SdcLocation'), **f), f


@register
class Contains(FnCheck):
    id = 'C16.contains'
    prop = 'C16'
    target = f'{LOC}:SdcLocation.__contains__'
    inline = (f'{LOC}:SdcLocation.root',)
    doc = ('other in self <=> roots equal AND for every location element: self has it unset (None) or both are equal; '
           'hence: reflexive, every generalisation contains, a differing specified element excludes')
    trusted = ('warnings.warn has no effect',)

    def setup(self, b):
        self.me, self.mf = mk_loc(b, 'self')
        self.other, self.of = mk_loc(b, 'other')
        return self.me, [self.other], {}

    def post(self, ex, st0, st, outcome, b):
        if outcome[0] == 'exc':
            ex.oblige(st, 'never_raises', z3.BoolVal(False), info={'exc': repr(outcome[1])})
            return
        spec = z3.And(self.mf['_root'].e == self.of['_root'].e,
                      *[z3.Or(Val.is_none(self.mf[e].e), self.mf[e].e == self.of[e].e) for e in ELEMS])
        ex.oblige(st, 'result_is_spec', truthy(outcome[1], st) == spec)


@register
class ScopeStringMatches(FnCheck):
    id = 'C16.scope_string_matches_total'
    prop = 'C16'
    target = f'{LOC}:SdcLocation._scope_string_matches'
    replay_fn = 'C16:filter_total'

    def concretize(self, vc, model):
        return {'path': vc.info.get('exc')}
    doc = ('_scope_string_matches never raises for any scope string: a scope with a different scheme (UrlSchemeError) '
           'or one that is not a well-formed location scope (ValueError from urlsplit / path unpacking) is "no match"')
    trusted = ('from_scope_string raises only UrlSchemeError or ValueError (bounded check C16.from_scope_string_raises)',)

    def setup(self, b):
        self.me, self.mf = mk_loc(b, 'self')
        return self.me, [b.str('scope_text')], {}

    def callees(self, ex):
        def from_scope(ex_, st, args, kwargs):
            o = st.alloc((LOC, 'SdcLocation'))
            for e in ELEMS:
                v = vany(fresh(Val, e), maybe_none=True)
                st.assume(z3.Or(Val.is_none(v.e), Val.is_str(v.e)))
                st.write_field(o, e, v)
            r = vany(fresh(Val, 'root'))
            st.assume(Val.is_str(r.e))
            st.write_field(o, '_root', r)
            return [(st.fork(), Raise(ex_.mk_exc('UrlSchemeError', 'from_scope_string'))),
                    (st.fork(), Raise(ex_.mk_exc('ValueError', 'from_scope_string'))), (st, o)]
        return {f'{LOC}:SdcLocation.from_scope_string': Pure(from_scope, name='from_scope_string contract'),
                f'{LOC}:SdcLocation.__contains__': Inline(), f'{LOC}:SdcLocation.root': Inline()}

    inline = (f'{LOC}:SdcLocation.__contains__', f'{LOC}:SdcLocation.root')

    def post(self, ex, st0, st, outcome, b):
        if outcome[0] == 'exc':
            ex.oblige(st, 'never_raises', z3.BoolVal(False), info={'exc': repr(outcome[1])})
        else:
            r = outcome[1]
            ex.oblige(st, 'returns_bool', z3.BoolVal(r.kind == 'bool'))


@register
class ServiceMatches(FnCheck):
    id = 'C16.service_matches_total'
    prop = 'C16'
    target = f'{LOC}:SdcLocation._service_matches'
    optional_fields = ('scopes',)
    doc = ('_service_matches never raises: services without scopes do not match; otherwise it is true exactly when some '
           'scope string of the service - at any position of the list - matches (_scope_string_matches, total)')

    def setup(self, b):
        st = b.st
        self.me, self.mf = mk_loc(b, 'self')
        L = b.ex.ctx.builtin_class_ids['list']
        texts = b.obj('texts')
        st.assume(z3.Select(st.get_arr('C'), texts.e) == L)
        sc = b.obj('scopes', text=texts)
        none_sc = b.bool('scopes_none')
        svc = b.obj('service', scopes=vany(z3.If(none_sc.e, Val.none, Val.ref(sc.e)), maybe_none=True))
        self.none_sc = none_sc
        self.texts = z3.Select(st.get_arr('L'), texts.e)
        self.M = z3.Function('scope_matches', Val, BoolS)
        return self.me, [svc], {}

    def callees(self, ex):
        M = self.M
        return {f'{LOC}:SdcLocation._scope_string_matches':
                Pure(lambda e, st, a, k: vbool(M(st.box(a[0]))), name='_scope_string_matches: total (C16.scope_string_matches_total)')}

    def post(self, ex, st0, st, outcome, b):
        if outcome[0] == 'exc':
            ex.oblige(st, 'never_raises', z3.BoolVal(False), info={'exc': repr(outcome[1])})
        else:
            ex.oblige(st, 'returns_bool', z3.BoolVal(outcome[1].kind == 'bool'))
            # a service is inside the location iff SOME of its scopes is a location scope inside it - whichever position
            # that scope has in the list (devices publish several scopes, foreign ones first or last)
            j = z3.Int('j!sm')
            some = z3.Exists([j], z3.And(0 <= j, j < z3.Length(self.texts), self.M(self.texts[j])))
            ex.oblige(st, 'matches_iff_some_scope_matches',
                      truthy(outcome[1], st) == z3.And(z3.Not(self.none_sc.e), some))
