"""C16 - location scopes round-trip; location filtering tolerates foreign scopes."""
from __future__ import annotations

import z3

from pyvc.api import (FnCheck, LoopSpec, Pure, Inline, register, Build, V, Val, SeqVal, IntS, RealS, BoolS, StrS, NONE,
                      Raise, Unsupported, fresh, vany, vint, vbool, vbytes, vstr, vref, as_int, unbox_as, truthy)

LOC = 'sdc11073.location'
ELEMS = ('fac', 'bldng', 'flr', 'poc', 'rm', 'bed')


def mk_loc(b, name):
    f = {}
    for e in ELEMS:
        f[e] = b.any(f'{name}.{e}', maybe_none=True)
        b.st.assume(z3.Or(Val.is_none(f[e].e), Val.is_str(f[e].e)))
    f['_root'] = b.any(f'{name}._root')
    b.st.assume(Val.is_str(f['_root'].e))
    return b.obj(name, cls=(LOC, 'SdcLocation'), **f), f


@register
class Contains(FnCheck):
    id = 'C16.contains'
    prop = 'C16'
    target = f'{LOC}:SdcLocation.__contains__'
    inline = (f'{LOC}:SdcLocation.root',)
    doc = ('other in self <=> roots equal AND for every location element: self has it unset (None) or both are equal; '
           'hence: reflexive, every generalisation contains, a differing specified element excludes')
    trusted = ('warnings.warn has no effect',)

    def setup(self, b):
        self.me, self.mf = mk_loc(b, 'self')
        self.other, self.of = mk_loc(b, 'other')
        return self.me, [self.other], {}

    def post(self, ex, st0, st, outcome, b):
        if outcome[0] == 'exc':
            ex.oblige(st, 'never_raises', z3.BoolVal(False), info={'exc': repr(outcome[1])})
            return
        spec = z3.And(self.mf['_root'].e == self.of['_root'].e,
                      *[z3.Or(Val.is_none(self.mf[e].e), self.mf[e].e == self.of[e].e) for e in ELEMS])
        ex.oblige(st, 'result_is_spec', truthy(outcome[1], st) == spec)


@register
class ScopeStringMatches(FnCheck):
    id = 'C16.scope_string_matches_total'
    prop = 'C16'
    target = f'{LOC}:SdcLocation._scope_string_matches'
    replay_fn = 'C16:filter_total'
    replay_without_model = True     # the replay runs a fixed family of scopes, no solver model needed

    def concretize(self, vc, model):
        return {'path': vc.info.get('exc'), 'obligation': vc.name}
    doc = ('_scope_string_matches never raises for any scope string: a scope with a different scheme (UrlSchemeError) '
           'or one that is not a well-formed location scope (ValueError from urlsplit / path unpacking) is "no match"; '
           'and it is True EXACTLY when from_scope_string accepts the text and the location it returns is inside self '
           '(C16.contains) - for every text, whatever its length or content')
    trusted = ('from_scope_string raises only UrlSchemeError or ValueError (bounded check C16.from_scope_string_raises)',)

    def setup(self, b):
        self.me, self.mf = mk_loc(b, 'self')
        self.text = b.str('scope_text')
        # what from_scope_string does with a given text: it either raises (not a location scope) or returns THE location
        # the text denotes - uninterpreted functions of the text, so that a result that does not depend on the parsed
        # location (e.g. a shortcut that never parses) cannot satisfy the postcondition
        self.parses = z3.Function('is_location_scope', StrS, BoolS)
        self.parsed = {e: z3.Function(f'parsed_{e}', StrS, Val) for e in ELEMS + ('_root',)}
        return self.me, [self.text], {}

    def callees(self, ex):
        def from_scope(ex_, st, args, kwargs):
            t = ex_.concrete_kind(st, args[0], ('str',)).e
            o = st.alloc((LOC, 'SdcLocation'))
            for e in ELEMS:
                v = vany(self.parsed[e](t), maybe_none=True)
                st.assume(z3.Or(Val.is_none(v.e), Val.is_str(v.e)))
                st.write_field(o, e, v)
            r = vany(self.parsed['_root'](t))
            st.assume(Val.is_str(r.e))
            st.write_field(o, '_root', r)
            bad1, bad2 = st.fork(), st.fork()
            bad1.assume(z3.Not(self.parses(t)))
            bad2.assume(z3.Not(self.parses(t)))
            st.assume(self.parses(t))
            return [(bad1, Raise(ex_.mk_exc('UrlSchemeError', 'from_scope_string'))),
                    (bad2, Raise(ex_.mk_exc('ValueError', 'from_scope_string'))), (st, o)]
        return {f'{LOC}:SdcLocation.from_scope_string': Pure(from_scope, name='from_scope_string contract'),
                f'{LOC}:SdcLocation.__contains__': Inline(), f'{LOC}:SdcLocation.root': Inline()}

    inline = (f'{LOC}:SdcLocation.__contains__', f'{LOC}:SdcLocation.root')

    def post(self, ex, st0, st, outcome, b):
        if outcome[0] == 'exc':
            ex.oblige(st, 'never_raises', z3.BoolVal(False), info={'exc': repr(outcome[1])})
        else:
            r = outcome[1]
            ex.oblige(st, 'returns_bool', z3.BoolVal(r.kind == 'bool'))
            t = self.text.e
            inside = z3.And(self.mf['_root'].e == self.parsed['_root'](t),
                            *[z3.Or(Val.is_none(self.mf[e].e), self.mf[e].e == self.parsed[e](t)) for e in ELEMS])
            ex.oblige(st, 'matches_iff_the_scope_denotes_a_location_inside', truthy(r, st) == z3.And(self.parses(t), inside))


@register
class ServiceMatches(FnCheck):
    id = 'C16.service_matches_total'
    prop = 'C16'
    target = f'{LOC}:SdcLocation._service_matches'
    optional_fields = ('scopes',)
    doc = ('_service_matches never raises: services without scopes do not match; otherwise it is true exactly when some '
           'scope string of the service - at any position of the list - matches (_scope_string_matches, total)')

    def setup(self, b):
        st = b.st
        self.me, self.mf = mk_loc(b, 'self')
        L = b.ex.ctx.builtin_class_ids['list']
        texts = b.obj('texts')
        st.assume(z3.Select(st.get_arr('C'), texts.e) == L)
        sc = b.obj('scopes', text=texts)
        none_sc = b.bool('scopes_none')
        svc = b.obj('service', scopes=vany(z3.If(none_sc.e, Val.none, Val.ref(sc.e)), maybe_none=True))
        self.none_sc = none_sc
        self.texts = z3.Select(st.get_arr('L'), texts.e)
        self.M = z3.Function('scope_matches', Val, BoolS)
        return self.me, [svc], {}

    def callees(self, ex):
        M = self.M
        return {f'{LOC}:SdcLocation._scope_string_matches':
                Pure(lambda e, st, a, k: vbool(M(st.box(a[0]))), name='_scope_string_matches: total (C16.scope_string_matches_total)')}

    def post(self, ex, st0, st, outcome, b):
        if outcome[0] == 'exc':
            ex.oblige(st, 'never_raises', z3.BoolVal(False), info={'exc': repr(outcome[1])})
        else:
            ex.oblige(st, 'returns_bool', z3.BoolVal(outcome[1].kind == 'bool'))
            # a service is inside the location iff SOME of its scopes is a location scope inside it - whichever position
            # that scope has in the list (devices publish several scopes, foreign ones first or last)
            j = z3.Int('j!sm')
            some = z3.Exists([j], z3.And(0 <= j, j < z3.Length(self.texts), self.M(self.texts[j])))
            ex.oblige(st, 'matches_iff_some_scope_matches',
                      truthy(outcome[1], st) == z3.And(z3.Not(self.none_sc.e), some))


# ---------------------------------------------------------------------------------------------------------------
# round trip  from_scope_string(loc.scope_string) == loc  on the real code, over axiomatised urllib.parse
from pyvc.api import SeqCheck   # noqa: E402
from pyvc import models   # noqa: E402

Q0 = z3.Function('quote_safe_none', StrS, StrS)          # quote(s, safe='')
Q1 = z3.Function('quote_default', StrS, StrS)            # quote(s)          (safe='/')
UQ = z3.Function('unquote', StrS, StrS)
UEF = z3.Function('urlencode_location', Val, Val, Val, Val, Val, Val, StrS)   # urlencode of {name_i: v_i} (none = key absent)
UNP = z3.Function('urlunparse_spq', StrS, StrS, StrS, StrS)                   # urlunparse(scheme, None, path, None, query, None)
SCH, PTH, QRY = (z3.Function(n, StrS, StrS) for n in ('urlsplit_scheme', 'urlsplit_path', 'urlsplit_query'))
QV = [z3.Function(f'query_value_{e}', StrS, Val) for e in ELEMS]             # dict(parse_qsl(q)).get(name_i)
LOWER = models.uf('str_lower', StrS, StrS)
SPLIT = models.uf('str_split', StrS, StrS, SeqVal)


def _no(ch, s):
    return z3.Not(z3.Contains(s, z3.StringVal(ch)))


def urllib_axioms():
    """Assumed contracts of urllib.parse (validated on the real library by the bounded check C16.urllib_axioms [B])."""
    s, a, p, q = z3.Strings('s!ax a!ax p!ax q!ax')
    vs = [z3.Const(f'v{i}!ax', Val) for i in range(6)]
    ax = [z3.ForAll([s], z3.And(UQ(Q0(s)) == s, UQ(Q1(s)) == s)),
          z3.ForAll([s], z3.And(_no('/', Q0(s)), _no('?', Q0(s)), _no('#', Q0(s)), _no('?', Q1(s)), _no('#', Q1(s)))),
          z3.ForAll([s], z3.Implies(_no('/', s), _no('/', Q1(s)))),
          z3.ForAll([s], z3.Implies(z3.Length(s) > 0, z3.Length(Q1(s)) > 0)),
          z3.ForAll(vs, _no('#', UEF(*vs))),
          # urlsplit inverts urlunparse for a path without '?' '#' that starts with '/', and a query without '#'
          z3.ForAll([a, p, q], z3.Implies(z3.And(_no('?', p), _no('#', p), _no('#', q), z3.PrefixOf(z3.StringVal('/'), p),
                                                 z3.Not(z3.PrefixOf(z3.StringVal('//'), p))),    # '//' would start an authority
                                          z3.And(SCH(UNP(a, p, q)) == a, PTH(UNP(a, p, q)) == p, QRY(UNP(a, p, q)) == q)))]
    # parse_qsl(urlencode(d)): exactly the keys with a non-empty string value, with their values
    for i in range(6):
        ax.append(z3.ForAll(vs, QV[i](UEF(*vs)) == z3.If(z3.And(Val.is_str(vs[i]), z3.Length(Val.s(vs[i])) > 0), vs[i], Val.none)))
    ax.append(LOWER(z3.StringVal('sdc.ctxt.loc')) == z3.StringVal('sdc.ctxt.loc'))
    return ax


class ScopeRoundTrip(SeqCheck):
    id = 'C16.scope_round_trip'
    prop = 'C16'
    case = ()         # (present?, present?) for the first two elements: the 64 presence patterns are split over four
                      # registered instances so that they are generated and discharged in parallel
    targets_list = (f'{LOC}:SdcLocation.scope_string', f'{LOC}:SdcLocation.from_scope_string')
    inline = (f'{LOC}:SdcLocation.root', f'{LOC}:SdcLocation.__init__')
    feasibility_ematch_only = True
    feasibility_timeout_ms = 60
    doc = ('from_scope_string(loc.scope_string) is the same location, for ALL element values (any unicode text; None and "" '
           'both mean "absent" and come back as None) and every non-empty root without "/": the real scope_string and the real '
           'from_scope_string are executed one after the other on a symbolic location; urllib.parse is replaced by its '
           'assumed contracts (quote / unquote inverse and free of "/?#", urlencode / parse_qsl inverse on non-empty values, '
           'urlsplit inverts urlunparse, split of "/a/b"). What is proved is the plumbing of the library code for all '
           'inputs: which keys, which order, which quoting on which side, which path segment; never raises')
    trusted = ('urllib.parse axioms (quote/unquote, urlencode/parse_qsl, urlunparse/urlsplit), validated by the bounded '
               'check C16.urllib_axioms on the real library', 'str.split("/") of "/a/b" with "/"-free a, b is ["", a, b]',
               'str.lower of the scheme constant')

    def script(self, run, ex, st, b):
        self.me, self.mf = mk_loc(b, 'self')
        root = Val.s(self.mf['_root'].e)
        st.assume(_no('/', root))
        st.assume(z3.Length(root) > 0)       # an empty root yields a path "//...", which urlsplit reads as an authority
        for e, present in zip(ELEMS, self.case):
            v = self.mf[e].e
            nonempty = z3.And(Val.is_str(v), z3.Length(Val.s(v)) > 0)
            st.assume(nonempty if present else z3.Not(nonempty))
        for a in urllib_axioms():
            st.assume(a)
        st.ghost['c:q1'] = ()
        outs = []
        for s1, r1 in run(st, self.targets_list[0], self.me, []):
            if isinstance(r1, Raise):
                ex.oblige(s1, 'scope_string_never_raises', z3.BoolVal(False), info={'exc': repr(r1.exc)})
                outs.append((s1, ('exc', r1.exc)))
                continue
            cls = V('class', py=(LOC, 'SdcLocation'))
            for s2, r2 in run(s1, self.targets_list[1], cls, [r1]):
                if isinstance(r2, Raise):
                    ex.oblige(s2, 'own_scope_string_is_always_parsed', z3.BoolVal(False), info={'exc': repr(r2.exc)})
                    outs.append((s2, ('exc', r2.exc)))
                    continue
                new = ex.concrete_kind(s2, r2, ('ref',))
                for e in ELEMS:
                    orig = self.mf[e].e
                    want = z3.If(z3.And(Val.is_str(orig), z3.Length(Val.s(orig)) > 0), orig, Val.none)
                    ex.oblige(s2, f'element_{e}_comes_back', z3.Select(s2.get_arr('f:' + e), new.e) == want)
                ex.oblige(s2, 'root_comes_back', z3.Select(s2.get_arr('f:_root'), new.e) == self.mf['_root'].e)
                outs.append((s2, ('ret', r2)))
        return outs

    def callees(self, ex):
        def quote(ex_, st, args, kwargs):
            s = ex_.concrete_kind(st, args[0], ('str',))
            if s.kind != 'str':
                raise Unsupported('quote of a non-string')
            safe = kwargs.get('safe', args[1] if len(args) > 1 else None)
            if safe is None:
                r = Q1(s.e)
                st.ghost['c:q1'] = st.ghost['c:q1'] + (r,)
                return vstr(r)
            sv = z3.simplify(safe.e) if safe.kind == 'str' else None
            if sv is not None and z3.is_string_value(sv) and sv.as_string() == '':
                return vstr(Q0(s.e))
            raise Unsupported('quote with another safe set')

        def unquote(ex_, st, args, kwargs):
            s = ex_.concrete_kind(st, args[0], ('str',))
            return vstr(UQ(s.e))

        def join(ex_, st, args, kwargs):
            recv = ex_.concrete_kind(st, vany(st.ghost['c:recv']), ('str',))
            items = models.concrete_items(ex_, st, args[0])
            if items is None:
                raise Unsupported('join of a list of symbolic length')
            parts = []
            for i, it in enumerate(items):
                it = ex_.concrete_kind(st, it, ('str',))
                if i:
                    parts.append(recv.e)
                parts.append(it.e)
            r = z3.Concat(*parts) if len(parts) > 1 else parts[0]
            st.ghost['c:loc'] = r
            return vstr(r)

        def urlencode(ex_, st, args, kwargs):
            d = ex_.concrete_kind(st, args[0], ('ref',))
            dk, dv = z3.Select(st.get_arr('DK'), d.e), z3.Select(st.get_arr('DV'), d.e)
            vals = [z3.If(z3.Select(dk, Val.str(z3.StringVal(e))), z3.Select(dv, Val.str(z3.StringVal(e))), Val.none) for e in ELEMS]
            # only the six location element names may be keys of the dict
            k = z3.Const('k!ue', Val)
            ex_.oblige(st, 'query_holds_only_location_elements', z3.ForAll([k], z3.Implies(
                z3.Select(dk, k), z3.Or(*[k == Val.str(z3.StringVal(e)) for e in ELEMS]))))
            return vstr(UEF(*vals))

        def parse_result(ex_, st, args, kwargs):
            o = st.alloc('ParseResult')
            for n in ('scheme', 'netloc', 'path', 'params', 'query', 'fragment'):
                st.write_field(o, n, kwargs.get(n, NONE))
            return o

        def urlunparse(ex_, st, args, kwargs):
            o = ex_.concrete_kind(st, args[0], ('ref',))
            f = lambda n: z3.Select(st.get_arr('f:' + n), o.e)   # noqa: E731
            ex_.oblige(st, 'scope_has_no_authority_params_fragment', z3.And(*[Val.is_none(f(n)) for n in ('netloc', 'params', 'fragment')]))
            ex_.oblige(st, 'scope_parts_are_strings', z3.And(*[Val.is_str(f(n)) for n in ('scheme', 'path', 'query')]))
            return vstr(UNP(Val.s(f('scheme')), Val.s(f('path')), Val.s(f('query'))))

        def urlsplit(ex_, st, args, kwargs):
            s = ex_.concrete_kind(st, args[0], ('str',))
            o = st.alloc('SplitResult')
            st.write_field(o, 'scheme', vstr(SCH(s.e)))
            st.write_field(o, 'path', vstr(PTH(s.e)))
            st.write_field(o, 'query', vstr(QRY(s.e)))
            return [(st.fork(), Raise(ex_.mk_exc('ValueError', 'urlsplit'))), (st, o)] if False else o

        def parse_qsl(ex_, st, args, kwargs):
            s = ex_.concrete_kind(st, args[0], ('str',))
            o = st.alloc('QueryPairs')
            st.write_field(o, '__query__', vstr(s.e))
            return o

        def mk_dict(ex_, st, args, kwargs):
            if len(args) != 1:
                raise Unsupported('dict() with other arguments')
            src = ex_.concrete_kind(st, args[0], ('ref',))
            qs = Val.s(z3.Select(st.get_arr('f:__query__'), src.e))
            d = st.new_dict()
            dk = z3.K(Val, z3.BoolVal(False))
            dv = z3.Select(st.get_arr('DV'), d.e)
            for i, e in enumerate(ELEMS):
                key = Val.str(z3.StringVal(e))
                dk = z3.Store(dk, key, z3.Not(Val.is_none(QV[i](qs))))
                dv = z3.Store(dv, key, QV[i](qs))
            st.set_arr('DK', z3.Store(st.get_arr('DK'), d.e, dk))
            st.set_arr('DV', z3.Store(st.get_arr('DV'), d.e, dv))
            return d
        return {'urllib.parse.quote': Pure(quote, name='urllib.parse.quote', trusted=True),
                'urllib.parse.unquote': Pure(unquote, name='urllib.parse.unquote', trusted=True),
                '*.join': Pure(join, name='str.join over the six quoted elements (concatenation)'),
                'urllib.parse.urlencode': Pure(urlencode, name='urllib.parse.urlencode', trusted=True),
                'urllib.parse.ParseResult': Pure(parse_result, name='ParseResult(...)'),
                'urllib.parse.urlunparse': Pure(urlunparse, name='urllib.parse.urlunparse', trusted=True),
                'urllib.parse.urlsplit': Pure(urlsplit, name='urllib.parse.urlsplit', trusted=True),
                'urllib.parse.parse_qsl': Pure(parse_qsl, name='urllib.parse.parse_qsl', trusted=True),
                'dict': Pure(mk_dict, name='dict(parse_qsl(query)): keys with non-empty values', trusted=True)}

    def hooks(self, ex):
        chk = self

        class H:
            tracked_names = ()

            @staticmethod
            def on_call(ex_, st, fv, keys, args, kwargs, node):
                if fv.t == 'method':
                    st.ghost['c:recv'] = st.box(fv.recv)
                    if fv.name == 'split' and fv.recv.kind == 'str' and args:
                        # ground instance of: split("/" + a + "/" + b, "/") == ["", a, b] for "/"-free a, b
                        q1s, loc = st.ghost.get('c:q1', ()), st.ghost.get('c:loc')
                        if q1s and loc is not None:
                            a = q1s[-1]
                            whole = z3.Concat(z3.StringVal('/'), a, z3.StringVal('/'), loc)
                            parts = z3.Concat(z3.Unit(Val.str(z3.StringVal(''))), z3.Unit(Val.str(a)), z3.Unit(Val.str(loc)))
                            st.assume(z3.Implies(z3.And(fv.recv.e == whole, _no('/', a), _no('/', loc)),
                                                 SPLIT(fv.recv.e, z3.StringVal('/')) == parts))
                return None
        return H


for _a in (False, True):
    for _b in (False, True):
        register(type(f'ScopeRoundTrip_{int(_a)}{int(_b)}', (ScopeRoundTrip,),
                      {'id': f'C16.scope_round_trip.fac_{"set" if _a else "unset"}.bldng_{"set" if _b else "unset"}', 'case': (_a, _b)}))


# --------------------------------------------------------------------------------------------------------------------
# the published chain starts at the location state: what mk_scopes publishes is LocationDetail of the associated state
SCN = 'sdc11073.mdib.statecontainers'
DETAIL = {'fac': 'Facility', 'bldng': 'Building', 'flr': 'Floor', 'poc': 'PoC', 'rm': 'Room', 'bed': 'Bed'}


@register
class UpdateFromSdcLocation(FnCheck):
    id = 'C16.location_state_takes_every_element_of_the_location'
    prop = 'C16'
    opaque_ok = True
    target = f'{SCN}:LocationContextStateContainer.update_from_sdc_location'
    optional_fields = ('LocationDetail',)
    doc = ('LocationContextStateContainer.update_from_sdc_location(loc) - also on a state that already carries another '
           'location: afterwards LocationDetail.{Facility, Building, Floor, PoC, Room, Bed} are EXACTLY loc.{fac, bldng, '
           'flr, poc, rm, bed}, unset elements (None) included, so that the scope published from the state (mk_scopes) '
           'denotes loc and nothing more specific')

    def setup(self, b):
        st = b.st
        self.loc, self.lf = mk_loc(b, 'sdc_location')
        self.had = b.bool('state_already_has_a_location_detail')
        old = {v: b.any(f'old.{v}', maybe_none=True) for v in DETAIL.values()}
        self.detail = b.obj('location_detail', **old)
        self.o = b.obj('self', cls=(SCN, 'LocationContextStateContainer'),
                       LocationDetail=vany(z3.If(self.had.e, Val.ref(self.detail.e), Val.none), maybe_none=True))
        b.distinct(self.o, self.detail, self.loc)
        return self.o, [self.loc], {}

    def callees(self, ex):
        def new_detail(ex_, st, args, kwargs):
            o = st.alloc('LocationDetail')
            for v in DETAIL.values():
                st.write_field(o, v, NONE)
            return o
        return {'sdc11073.xml_types.pm_types:LocationDetail': Pure(new_detail, name='pm_types.LocationDetail() (all elements unset)'),
                '*.LocationDetail': Pure(new_detail, name='pm_types.LocationDetail() (all elements unset)'),
                f'{SCN}:LocationContextStateContainer._loc_extension_segment':
                    Pure(lambda e, s, a, k: vstr(fresh(StrS, 'extension')), name='_loc_extension_segment'),
                '*.InstanceIdentifier': Pure(lambda e, s, a, k: s.alloc('InstanceIdentifier'), name='InstanceIdentifier(...)'),
                'sdc11073.xml_types.pm_types:InstanceIdentifier': Pure(lambda e, s, a, k: s.alloc('InstanceIdentifier'), name='InstanceIdentifier(...)')}

    def post(self, ex, st0, st, outcome, b):
        if outcome[0] == 'exc':
            ex.oblige(st, 'never_raises', z3.BoolVal(False), info={'exc': repr(outcome[1])})
            return
        d = z3.Select(st.get_arr('f:LocationDetail'), self.o.e)
        ex.oblige(st, 'state_has_a_location_detail', Val.is_ref(d))
        for e, name in DETAIL.items():
            ex.oblige(st, f'{name}_is_the_{e}_of_the_location_none_included',
                      z3.Select(st.get_arr('f:' + name), Val.oid(d)) == self.lf[e].e)
