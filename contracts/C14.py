"""C14 - WS-Discovery answers and records exactly what its matching rules prescribe."""
from __future__ import annotations

import ast

import z3

from pyvc.api import (FnCheck, LoopSpec, Pure, Inline, register, Build, V, Val, SeqVal, IntS, RealS, BoolS, StrS, NONE,
                      Raise, Unsupported, fresh, vany, vint, vbool, vbytes, vstr, vref, as_int, unbox_as, TESTER)
from pyvc import models

WSD = 'sdc11073.wsdiscovery.wsdimpl'
NT = 'sdc11073.wsdiscovery.networkingthread'
NS_D = 'http://docs.oasis-open.org/ws-dd/ns/discovery/2009/01'

# urllib.parse axiomatised: components of a split URI and percent-decoding are uninterpreted total functions
U_SCHEME = z3.Function('url_scheme', StrS, StrS)
U_NETLOC = z3.Function('url_netloc', StrS, StrS)
U_PATH = z3.Function('url_path', StrS, StrS)
UNQ = z3.Function('unquote', Val, Val)
LOWER = models.uf('str_lower', StrS, StrS)
SPLIT = models.uf('str_split', StrS, StrS, SeqVal)


def urlsplit_summary():
    def fn(ex, st, args, kwargs):
        u = ex.concrete_kind(st, args[0], ('str',))
        if u.kind != 'str':
            raise Unsupported('urlsplit of non-str')
        o = st.alloc('SplitResult')
        st.write_field(o, 'scheme', vstr(U_SCHEME(u.e)))
        st.write_field(o, 'netloc', vstr(U_NETLOC(u.e)))
        st.write_field(o, 'path', vstr(U_PATH(u.e)))
        return o
    return Pure(fn, name='urllib.parse.urlsplit: total, components are functions of the string', trusted=True)


@register
class MatchScope(FnCheck):
    id = 'C14.match_scope'
    prop = 'C14'
    target = f'{WSD}:match_scope'
    module_constants = {f'{WSD}:NS_D': NS_D}
    doc = ('match_scope(a, b, rule) == spec: rfc3986 (also ldap/uuid URIs, "" and None, which the library maps to the '
           'same rule): scheme and authority equal case-insensitively AND the percent-decoded "/"-segments of a are a '
           'prefix of those of b; strcmp0: a == b; any other rule: False')
    trusted = ('urlsplit / unquote / str.lower / str.split are total functions (uninterpreted); urlsplit does not raise',)

    def setup(self, b):
        self.a = b.str('my_scope')
        self.b = b.str('other_scope')
        self.rule = b.any('match_by', maybe_none=True)
        b.st.assume(z3.Or(Val.is_none(self.rule.e), Val.is_str(self.rule.e)))
        v = z3.Const('v!unq', Val)
        b.st.assume(z3.ForAll([v], Val.is_str(UNQ(v))))
        return None, [self.a, self.b, self.rule], {}

    def callees(self, ex):
        return {'urllib.parse.urlsplit': urlsplit_summary()}

    def hooks(self, ex):
        ex.ctx.map_functions['unquote'] = UNQ
        return None

    def post(self, ex, st0, st, outcome, b):
        if outcome[0] == 'exc':
            ex.oblige(st, 'never_raises', z3.BoolVal(False), info={'exc': repr(outcome[1])})
            return
        r = ex.concrete_kind(st, outcome[1], ('bool',))
        if r.kind != 'bool':
            ex.oblige(st, 'returns_bool', z3.BoolVal(False))
            return
        a, bb, rule = self.a.e, self.b.e, self.rule.e
        S = lambda x: Val.is_str(rule) if x is None else z3.And(Val.is_str(rule), Val.s(rule) == z3.StringVal(x))  # noqa: E731
        uri_rule = z3.Or(Val.is_none(rule), S(''), S(NS_D + '/rfc3986'), S(NS_D + '/ldap'), S(NS_D + '/uuid'))
        slash = z3.StringVal('/')
        sa, sb = SPLIT(U_PATH(a), slash), SPLIT(U_PATH(bb), slash)
        i = z3.Int('i!seg')
        prefix = z3.And(z3.Length(sa) <= z3.Length(sb),
                        z3.ForAll([i], z3.Implies(z3.And(0 <= i, i < z3.Length(sa)), UNQ(sa[i]) == UNQ(sb[i]))))
        spec_uri = z3.And(LOWER(U_SCHEME(a)) == LOWER(U_SCHEME(bb)), LOWER(U_NETLOC(a)) == LOWER(U_NETLOC(bb)), prefix)
        ex.oblige(st, 'rfc3986_rule', z3.Implies(uri_rule, r.e == spec_uri))
        ex.oblige(st, 'strcmp0_rule', z3.Implies(S(NS_D + '/strcmp0'), r.e == (a == bb)))
        ex.oblige(st, 'unknown_rule_never_matches',
                  z3.Implies(z3.And(z3.Not(uri_rule), z3.Not(S(NS_D + '/strcmp0'))), z3.Not(r.e)))


MT = z3.Function('match_type', Val, Val, BoolS)          # proved equal to namespace/localname equality: C14.match_type
MS = z3.Function('match_scope', Val, Val, Val, BoolS)    # contract of match_scope: C14.match_scope


@register
class MatchType(FnCheck):
    id = 'C14.match_type'
    prop = 'C14'
    target = f'{WSD}:match_type'
    doc = 'match_type(t1, t2) <=> namespace and localname equal'

    def setup(self, b):
        self.t1 = b.obj('type1', namespace=b.any('ns1'), localname=b.any('ln1'))
        self.t2 = b.obj('type2', namespace=b.any('ns2'), localname=b.any('ln2'))
        self.sy = b.symbols
        for k in ('ns1', 'ns2', 'ln1', 'ln2'):
            b.st.assume(z3.Or(Val.is_str(self.sy[k].e), Val.is_none(self.sy[k].e)))
        return None, [self.t1, self.t2], {}

    def post(self, ex, st0, st, outcome, b):
        if outcome[0] == 'exc':
            ex.oblige(st, 'never_raises', z3.BoolVal(False))
            return
        from pyvc.api import truthy
        ex.oblige(st, 'spec', truthy(outcome[1], st) == z3.And(self.sy['ns1'].e == self.sy['ns2'].e,
                                                               self.sy['ln1'].e == self.sy['ln2'].e))


@register
class MatchesFilter(FnCheck):
    id = 'C14.matches_filter'
    prop = 'C14'
    target = f'{WSD}:matches_filter'
    inline = (f'{WSD}:_is_type_in_list', f'{WSD}:_is_scope_in_list')
    doc = ('matches_filter(service, types, scopes) <=> every requested type matches some type of the service AND every '
           'requested scope matches some scope of the service under the requested rule (None filters match all; a '
           'service without scopes matches no scope filter with entries)')

    def setup(self, b):
        st = b.st
        ctx = b.ex.ctx
        L = ctx.builtin_class_ids['list']
        self.types = z3.Const('req_types', SeqVal)
        self.srv_types = z3.Const('srv_types', SeqVal)
        self.req_scopes = z3.Const('req_scopes', SeqVal)
        self.srv_scopes = z3.Const('srv_scopes', SeqVal)
        self.rule = z3.Const('rule', Val)

        def mk_list(name, seq):
            o = b.obj(name)
            st.assume(z3.Select(st.get_arr('C'), o.e) == L)
            st.assume(z3.Select(st.get_arr('L'), o.e) == seq)
            return o
        self.types_none = b.bool('types_is_none')
        self.scopes_none = b.bool('scopes_is_none')
        self.srv_scopes_none = b.bool('service_scopes_is_none')
        types_l = mk_list('types_list', self.types)
        srv_types_l = mk_list('srv_types_list', self.srv_types)
        req_sc_l = mk_list('req_scopes_list', self.req_scopes)
        srv_sc_l = mk_list('srv_scopes_list', self.srv_scopes)
        srv_sc_obj = b.obj('srv_scopes_obj', text=srv_sc_l)
        req_sc_obj = b.obj('req_scopes_obj', text=req_sc_l, MatchBy=vany(self.rule))
        b.distinct(types_l, srv_types_l, req_sc_l, srv_sc_l, srv_sc_obj, req_sc_obj)
        types_v = vany(z3.If(self.types_none.e, Val.none, Val.ref(types_l.e)), maybe_none=True, path='types')
        scopes_v = vany(z3.If(self.scopes_none.e, Val.none, Val.ref(req_sc_obj.e)), maybe_none=True, path='scopes')
        svc = b.obj('service', types=srv_types_l,
                    scopes=vany(z3.If(self.srv_scopes_none.e, Val.none, Val.ref(srv_sc_obj.e)), maybe_none=True))
        return None, [svc, types_v, scopes_v], {}

    optional_fields = ('scopes',)

    def callees(self, ex):
        return {f'{WSD}:match_type': Pure(lambda e, st, a, k: vbool(MT(st.box(a[0]), st.box(a[1]))), name='match_type (C14.match_type)'),
                f'{WSD}:match_scope': Pure(lambda e, st, a, k: vbool(MS(st.box(a[0]), st.box(a[1]), st.box(a[2]))),
                                           name='match_scope (C14.match_scope)')}

    def _type_ok(self, t):
        j = z3.Int('j!t')
        return z3.Exists([j], z3.And(0 <= j, j < z3.Length(self.srv_types), MT(t, self.srv_types[j])))

    def _scope_ok(self, s):
        j = z3.Int('j!s')
        return z3.And(z3.Not(self.srv_scopes_none.e),
                      z3.Exists([j], z3.And(0 <= j, j < z3.Length(self.srv_scopes), MS(s, self.srv_scopes[j], self.rule))))

    def loops(self, ex):
        def inv0(ex_, st, env):
            k = env['_k']
            i = z3.Int('i!inv0')
            return z3.ForAll([i], z3.Implies(z3.And(0 <= i, i < k), self._type_ok(self.types[i])))

        def inv1(ex_, st, env):
            k = env['_k']
            i = z3.Int('i!inv1')
            all_types = z3.Or(self.types_none.e, z3.ForAll([i], z3.Implies(z3.And(0 <= i, i < z3.Length(self.types)),
                                                                           self._type_ok(self.types[i]))))
            return z3.And(all_types, z3.ForAll([i], z3.Implies(z3.And(0 <= i, i < k), self._scope_ok(self.req_scopes[i]))))
        return {0: LoopSpec(inv=inv0, havoc_heap=[]), 1: LoopSpec(inv=inv1, havoc_heap=[])}

    def post(self, ex, st0, st, outcome, b):
        if outcome[0] == 'exc':
            ex.oblige(st, 'never_raises', z3.BoolVal(False), info={'exc': repr(outcome[1])})
            return
        from pyvc.api import truthy
        i = z3.Int('i!post')
        spec = z3.And(
            z3.Or(self.types_none.e, z3.ForAll([i], z3.Implies(z3.And(0 <= i, i < z3.Length(self.types)),
                                                               self._type_ok(self.types[i])))),
            z3.Or(self.scopes_none.e, z3.ForAll([i], z3.Implies(z3.And(0 <= i, i < z3.Length(self.req_scopes)),
                                                                self._scope_ok(self.req_scopes[i])))))
        ex.oblige(st, 'result_is_spec', truthy(outcome[1], st) == spec)


class _WsdBase(FnCheck):
    prop = 'C14'
    container_hints = {'self._remote_services': 'dict', 'self._local_services': 'dict'}

    def mk_self(self, b):
        st = b.st
        D = b.ex.ctx.builtin_class_ids['dict']
        self.remote = b.obj('remote_services')
        self.local = b.obj('local_services')
        for d in (self.remote, self.local):
            st.assume(z3.Select(st.get_arr('C'), d.e) == D)
            st.assume(z3.Select(st.get_arr('DN'), d.e) >= 0)
        slf = b.obj('self', cls=(WSD, 'WSDiscovery'), _remote_services=self.remote, _local_services=self.local)
        b.distinct(self.remote, self.local, slf)
        return slf


@register
class AddRemoteService(_WsdBase):
    id = 'C14.add_remote_service'
    target = f'{WSD}:WSDiscovery._add_remote_service'
    doc = ('metadata-version arbitration: after _add_remote_service(s) the table entry for s.epr carries '
           'max(previous, s.metadata_version); a newer announcement replaces the entry, an older one changes nothing, '
           'an equal one only merges x_addrs/scopes/types; an empty epr is ignored; entries of other eprs are untouched')
    inline = ('sdc11073.wsdiscovery.service:Service.x_addrs', 'sdc11073.wsdiscovery.service:Service.x_addrs.setter')
    optional_fields = ('scopes', 'types', '_x_addrs')

    def setup(self, b):
        st = b.st
        slf = self.mk_self(b)
        self.epr = b.any('epr', maybe_none=True)
        st.assume(z3.Or(Val.is_none(self.epr.e), Val.is_str(self.epr.e)))
        self.mv = b.int('metadata_version')
        SV = ('sdc11073.wsdiscovery.service', 'Service')
        self.svc = b.obj('service', cls=SV, epr=self.epr, metadata_version=self.mv)
        # type invariant of the table: values are Service objects with int metadata_version
        dk = z3.Select(st.get_arr('DK'), self.remote.e)
        dv = z3.Select(st.get_arr('DV'), self.remote.e)
        k = z3.Const('k!rs', Val)
        cid = b.ex.ctx.class_id(SV)
        st.assume(z3.ForAll([k], z3.Implies(z3.Select(dk, k), z3.And(
            Val.is_ref(z3.Select(dv, k)), Val.oid(z3.Select(dv, k)) > 0, Val.oid(z3.Select(dv, k)) < 10 ** 9,
            z3.Select(st.get_arr('C'), Val.oid(z3.Select(dv, k))) == cid,
            Val.is_int(z3.Select(st.get_arr('f:metadata_version'), Val.oid(z3.Select(dv, k))))))))
        b.distinct(self.svc, slf, self.remote, self.local)
        return slf, [self.svc], {}

    def callees(self, ex):
        return {}

    def post(self, ex, st0, st, outcome, b):
        if outcome[0] == 'exc':
            ex.oblige(st, 'never_raises', z3.BoolVal(False), info={'exc': repr(outcome[1])})
            return
        epr = self.epr.e
        has_epr = z3.And(Val.is_str(epr), z3.Length(Val.s(epr)) > 0)

        def dom(s, k):
            return z3.Select(z3.Select(s.get_arr('DK'), self.remote.e), k)

        def val(s, k):
            return z3.Select(z3.Select(s.get_arr('DV'), self.remote.e), k)

        def mv(s, o):
            return Val.i(z3.Select(s.get_arr('f:metadata_version'), Val.oid(o)))
        kq = z3.Const('kq', Val)
        ex.oblige(st, 'other_eprs_untouched', z3.ForAll([kq], z3.Implies(kq != epr, z3.And(
            dom(st, kq) == dom(st0, kq), val(st, kq) == val(st0, kq)))))
        ex.oblige(st, 'empty_epr_ignored', z3.Implies(z3.Not(has_epr), z3.And(dom(st, epr) == dom(st0, epr),
                                                                            val(st, epr) == val(st0, epr))))
        known = dom(st0, epr)
        ex.oblige(st, 'unknown_epr_recorded', z3.Implies(z3.And(has_epr, z3.Not(known)),
                                                         z3.And(dom(st, epr), val(st, epr) == Val.ref(self.svc.e))))
        old_mv = mv(st0, val(st0, epr))
        ex.oblige(st, 'entry_present_afterwards', z3.Implies(has_epr, dom(st, epr)))
        ex.oblige(st, 'highest_metadata_version_kept', z3.Implies(z3.And(has_epr, known),
                  mv(st, val(st, epr)) == z3.If(self.mv.e > old_mv, self.mv.e, old_mv)))
        ex.oblige(st, 'newer_replaces', z3.Implies(z3.And(has_epr, known, self.mv.e > old_mv),
                                                   val(st, epr) == Val.ref(self.svc.e)))
        ex.oblige(st, 'older_or_equal_keeps_object', z3.Implies(z3.And(has_epr, known, self.mv.e <= old_mv),
                                                                val(st, epr) == val(st0, epr)))
        # an outdated announcement changes nothing at all about the stored service
        for f in ('_x_addrs', 'scopes', 'types', 'metadata_version'):
            ex.oblige(st, f'outdated_changes_nothing.{f}', z3.Implies(z3.And(has_epr, known, self.mv.e < old_mv),
                      z3.Select(st.get_arr('f:' + f), Val.oid(val(st0, epr))) ==
                      z3.Select(st0.get_arr('f:' + f), Val.oid(val(st0, epr)))))


@register
class RemoveRemoteService(_WsdBase):
    id = 'C14.remove_remote_service'
    target = f'{WSD}:WSDiscovery._remove_remote_service'
    doc = 'Bye: the entry of that epr is deleted, all other entries stay, never raises'

    def setup(self, b):
        slf = self.mk_self(b)
        self.epr = b.any('epr')
        return slf, [self.epr], {}

    def post(self, ex, st0, st, outcome, b):
        if outcome[0] == 'exc':
            ex.oblige(st, 'never_raises', z3.BoolVal(False))
            return
        dom = lambda s, k: z3.Select(z3.Select(s.get_arr('DK'), self.remote.e), k)   # noqa: E731
        val = lambda s, k: z3.Select(z3.Select(s.get_arr('DV'), self.remote.e), k)   # noqa: E731
        kq = z3.Const('kq', Val)
        ex.oblige(st, 'entry_deleted', z3.Not(dom(st, self.epr.e)))
        ex.oblige(st, 'others_kept', z3.ForAll([kq], z3.Implies(kq != self.epr.e, z3.And(
            dom(st, kq) == dom(st0, kq), val(st, kq) == val(st0, kq)))))


@register
class HandleResolve(_WsdBase):
    id = 'C14.handle_resolve'
    target = f'{WSD}:WSDiscovery._handle_received_resolve'
    doc = 'a Resolve is answered (one ResolveMatch for the published service) iff its endpoint reference is published locally'

    def setup(self, b):
        st = b.st
        slf = self.mk_self(b)
        self.epr = b.any('epr')
        st.ghost['sent'] = z3.IntVal(0)
        st.ghost['sent_svc'] = Val.none
        return slf, [b.obj('received_message'), b.any('addr_from')], {}

    def callees(self, ex):
        def from_node(ex_, st, args, kwargs):
            addr_o = st.alloc('EndpointReference')
            st.write_field(addr_o, 'Address', self.epr)
            o = st.alloc('ResolveType')
            st.write_field(o, 'EndpointReference', addr_o)
            return o

        def send(ex_, st, args, kwargs):
            st.ghost['sent'] = st.ghost['sent'] + 1
            st.ghost['sent_svc'] = st.box(args[0])
            return NONE
        return {'sdc11073.xml_types.wsd_types:ResolveType.from_node': Pure(from_node, name='ResolveType.from_node (C05)'),
                '*.from_node': Pure(from_node, name='ResolveType.from_node (C05)'),
                f'{WSD}:WSDiscovery._send_resolve_match': Pure(send, name='_send_resolve_match (ghost log)')}

    def post(self, ex, st0, st, outcome, b):
        if outcome[0] == 'exc':
            ex.oblige(st, 'never_raises', z3.BoolVal(False), info={'exc': repr(outcome[1])})
            return
        has = z3.Select(z3.Select(st0.get_arr('DK'), self.local.e), self.epr.e)
        ex.oblige(st, 'answered_iff_published', st.ghost['sent'] == z3.If(has, 1, 0))
        ex.oblige(st, 'answer_names_published_service', z3.Implies(
            has, st.ghost['sent_svc'] == z3.Select(z3.Select(st0.get_arr('DV'), self.local.e), self.epr.e)))


@register
class HandleProbe(_WsdBase):
    id = 'C14.handle_probe'
    target = f'{WSD}:WSDiscovery._handle_received_probe'
    optional_fields = ('_on_probe_callback',)
    doc = ('a Probe is answered iff filter_services(local services, probe.Types, probe.Scopes) is non-empty, with '
           'exactly that list (filter_services = comprehension over matches_filter, C14.matches_filter)')

    def setup(self, b):
        st = b.st
        slf = self.mk_self(b)
        st.ghost['sent'] = z3.IntVal(0)
        st.ghost['sent_list'] = Val.none
        self.result = z3.Const('filtered', SeqVal)
        self.types, self.scopes = b.any('probe_types'), b.any('probe_scopes')
        return slf, [b.obj('received_message'), b.any('addr_from')], {}

    def callees(self, ex):
        def from_node(ex_, st, args, kwargs):
            o = st.alloc('ProbeType')
            st.write_field(o, 'Types', self.types)
            st.write_field(o, 'Scopes', self.scopes)
            return o

        def filt(ex_, st, args, kwargs):
            st.ghost['c:filter_args'] = (st.box(args[1]), st.box(args[2]))
            r = st.alloc('list')
            st.set_list_seq(r, self.result)
            st.ghost['c:filter_result'] = r
            return r

        def send(ex_, st, args, kwargs):
            st.ghost['sent'] = st.ghost['sent'] + 1
            st.ghost['sent_list'] = st.box(args[0])
            return NONE

        def cb(ex_, st, args, kwargs):
            return NONE
        return {'*.from_node': Pure(from_node, name='ProbeType.from_node (C05)'),
                f'{WSD}:filter_services': Pure(filt, name='filter_services (C14.matches_filter)'),
                f'{WSD}:WSDiscovery._send_probe_match': Pure(send, name='_send_probe_match (ghost log)'),
                'self._on_probe_callback': Pure(cb, name='application callback', raises=('*',))}

    def post(self, ex, st0, st, outcome, b):
        if outcome[0] == 'exc':
            ex.oblige(st, 'only_callback_may_raise', z3.BoolVal('application callback' in outcome[1].origin))
        fa = st.ghost.get('c:filter_args')
        if fa is None:
            ex.oblige(st, 'filter_called', z3.BoolVal(False))
            return
        ex.oblige(st, 'filter_uses_probe_types_and_scopes', z3.And(fa[0] == self.types.e, fa[1] == self.scopes.e))
        ex.oblige(st, 'answered_iff_match', st.ghost['sent'] == z3.If(z3.Length(self.result) > 0, 1, 0))
        ex.oblige(st, 'answer_is_filter_result', z3.Implies(z3.Length(self.result) > 0,
                                                            st.ghost['sent_list'] == Val.ref(st.ghost['c:filter_result'].e)))


GHOST_KNOWN = z3.ArraySort(Val, BoolS)


@register
class DuplicateFilter(FnCheck):
    id = 'C14.duplicate_filter'
    prop = 'C14'
    tag = 'S'
    opaque_ok = True
    target = f'{NT}:NetworkingThread._run_q_read'
    doc = ('_run_q_read (arbitrary loop iteration): a received message is handed to handle_received_message only if '
           'its MessageID was not among the remembered ids when tested, and the id is remembered before the dispatch; '
           'nothing escapes the loop body')

    def setup(self, b):
        st = b.st
        slf = b.obj('self', cls=(NT, 'NetworkingThread'))
        st.ghost['known'] = z3.Const('known0', GHOST_KNOWN)
        return slf, [], {}

    def hooks(self, ex):
        def member(st, item):
            r = z3.Select(st.ghost['known'], item)
            st.ghost['tested'] = st.ghost.get('tested', ()) + ((item, r),)
            return r
        ex.ctx.membership['self._known_message_ids'] = member
        return None

    def callees(self, ex):
        def is_set(ex_, st, args, kwargs):
            return vbool(fresh(BoolS, 'quit'))

        def q_get(ex_, st, args, kwargs):
            return [(st.fork(), Raise(ex_.mk_exc('queue.Empty', 'queue.get'))),
                    (st, V('tuple', py=(vany(fresh(Val, 'addr')), vbytes(fresh(StrS, 'data')))))]

        def read_msg(ex_, st, args, kwargs):
            outs = [(st.fork(), Raise(ex_.mk_exc('etree.XMLSyntaxError', 'reader'))),
                    (st.fork(), Raise(ex_.mk_exc('ValidationError', 'reader'))),
                    (st.fork(), Raise(ex_.mk_exc('*', 'reader')))]
            mid = vany(fresh(Val, 'mid'))
            hib = st.alloc('HeaderInformationBlock')
            st.write_field(hib, 'MessageID', mid)
            pm = st.alloc('PayloadData')
            st.write_field(pm, 'header_info_block', hib)
            m = st.alloc('ReceivedMessage')
            st.write_field(m, 'p_msg', pm)
            st.ghost['cur_mid'] = mid.e
            st.ghost['cur_msg'] = Val.ref(m.e)
            outs.append((st, m))
            return outs

        def appendleft(ex_, st, args, kwargs):
            st.ghost['known'] = z3.Store(st.ghost['known'], st.box(args[0]), True)
            return NONE

        def dispatch(ex_, st, args, kwargs):
            mid = st.ghost.get('cur_mid')
            tested = st.ghost.get('tested', ())
            ok_test = z3.BoolVal(False)
            for item, res in tested:
                ok_test = z3.Or(ok_test, z3.And(item == mid, z3.Not(res)))
            ex_.oblige(st, 'dispatched_only_if_id_was_unknown', ok_test if mid is not None else z3.BoolVal(False))
            ex_.oblige(st, 'id_remembered_before_dispatch',
                       z3.Select(st.ghost['known'], mid) if mid is not None else z3.BoolVal(False))
            ex_.oblige(st, 'dispatched_message_is_the_one_read',
                       st.box(args[0]) == st.ghost['cur_msg'] if mid is not None else z3.BoolVal(False))
            st.ghost['n_dispatch'] = st.ghost.get('n_dispatch', 0) + 1
            return [(st.fork(), Raise(ex_.mk_exc('*', 'handler'))), (st, NONE)]
        return {'self._quit_recv_event.is_set': Pure(is_set), 'self._read_queue.get': Pure(q_get, name='Queue.get'),
                '*.read_received_message': Pure(read_msg, name='MessageReader.read_received_message (may raise)'),
                'self._known_message_ids.appendleft': Pure(appendleft, name='deque.appendleft (ghost set; eviction by maxlen not modelled)'),
                'self._wsd.handle_received_message': Pure(dispatch, name='WSDiscovery.handle_received_message')}

    def post(self, ex, st0, st, outcome, b):
        if outcome[0] == 'exc':
            ex.oblige(st, 'loop_body_catches_everything', z3.BoolVal(False), info={'exc': repr(outcome[1])})


@register
class OwnMessageIds(FnCheck):
    id = 'C14.own_ids_preregistered'
    prop = 'C14'
    tag = 'S'
    target = f'{NT}:NetworkingThread.add_outbound_message'
    doc = ('add_outbound_message remembers the MessageID of an outgoing message before it is enqueued for sending, so '
           'the multicast loop-back copy is recognised as known (shared with C15)')

    def setup(self, b):
        st = b.st
        slf = b.obj('self', cls=(NT, 'NetworkingThread'))
        st.ghost['known'] = z3.Const('known0', GHOST_KNOWN)
        self.mid = b.any('message_id')
        hib = b.obj('hib', MessageID=self.mid)
        pm = b.obj('p_msg', header_info_block=hib)
        msg = b.obj('msg', p_msg=pm)
        return slf, [msg, b.any('addr'), b.any('port'), b.any('repeat_params')], {}

    def callees(self, ex):
        def appendleft(ex_, st, args, kwargs):
            st.ghost['known'] = z3.Store(st.ghost['known'], st.box(args[0]), True)
            return NONE

        def enqueue(ex_, st, args, kwargs):
            ex_.oblige(st, 'id_known_before_enqueue', z3.Select(st.ghost['known'], self.mid.e))
            st.ghost['enqueued'] = True
            return NONE
        return {'self._known_message_ids.appendleft': Pure(appendleft, name='deque.appendleft (ghost set)'),
                f'{NT}:NetworkingThread._repeated_enqueue_msg': Pure(enqueue, name='_repeated_enqueue_msg (C15.schedule)'),
                f'{NT}:OutgoingMessage': Pure(lambda e, st, a, k: st.alloc('OutgoingMessage'), name='OutgoingMessage()')}

    def post(self, ex, st0, st, outcome, b):
        if outcome[0] == 'ret':
            ex.oblige(st, 'message_is_enqueued', z3.BoolVal(bool(st.ghost.get('enqueued'))))


# ---------------------------------------------------------------------------------------------------------------
# announcements: the Service object that enters the arbitration carries exactly what the message said

SVC = 'sdc11073.wsdiscovery.service'


@register
class ServiceInit(FnCheck):
    id = 'C14.service_init'
    prop = 'C14'
    target = f'{SVC}:Service.__init__'
    doc = ('Service(types, scopes, x_addrs, epr, instance_id, metadata_version) stores every argument unchanged - in '
           'particular every integer MetadataVersion including 0 - and starts with message_number 0')

    def setup(self, b):
        self.o = b.obj('self', cls=(SVC, 'Service'))
        self.a = {n: b.any(n, maybe_none=True) for n in ('types', 'scopes', 'x_addrs', 'epr', 'instance_id')}
        self.mv = b.int('metadata_version')
        return self.o, [self.a[n] for n in ('types', 'scopes', 'x_addrs', 'epr', 'instance_id')], {'metadata_version': self.mv}

    def post(self, ex, st0, st, outcome, b):
        if outcome[0] == 'exc':
            ex.oblige(st, 'never_raises', z3.BoolVal(False), info={'exc': repr(outcome[1])})
            return
        for arg, fld in (('types', 'types'), ('scopes', 'scopes'), ('x_addrs', '_x_addrs'), ('epr', 'epr'),
                         ('instance_id', 'instance_id')):
            ex.oblige(st, f'{fld}_is_the_argument', z3.Select(st.get_arr('f:' + fld), self.o.e) == self.a[arg].e)
        ex.oblige(st, 'metadata_version_is_the_argument_for_every_integer',
                  z3.Select(st.get_arr('f:metadata_version'), self.o.e) == Val.int(self.mv.e))
        ex.oblige(st, 'message_number_starts_at_zero', z3.Select(st.get_arr('f:message_number'), self.o.e) == Val.int(0))


class _Announcement(_WsdBase):
    """Hello / ResolveMatches / ProbeMatches: message object with symbolic members; Service() and the table
    operations are logged callees (their own contracts: C14.service_init, C14.add_remote_service)."""
    tag = 'S'
    opaque_ok = True
    msg_cls = ''
    FIELDS = ('Types', 'Scopes', 'XAddrs', 'MetadataVersion')
    stable_fields = ('Types', 'Scopes', 'XAddrs', 'MetadataVersion', 'EndpointReference', 'Address', 'InstanceId',
                     '_remote_services', '_local_services')

    def mk_match(self, b, name):
        st = b.st
        epr = b.any(name + '.epr')
        ref = b.obj(name + '.EndpointReference', Address=epr)
        vals = {f: b.any(f'{name}.{f}', maybe_none=True) for f in self.FIELDS}
        m = b.obj(name, EndpointReference=ref, **vals)
        return m, epr, vals

    def setup(self, b):
        st = b.st
        slf = self.mk_self(b)
        self.match, self.epr, self.vals = self.mk_match(b, 'msg')
        self.has_app_seq = b.bool('has_app_sequence')
        self.instance_id = b.any('instance_id')
        st.ghost['calls'] = ()
        return slf, [b.obj('received_message'), b.any('addr_from')], {}

    def body_of(self, ex, st):
        return self.match

    def callees(self, ex):
        def find(ex_, st, args, kwargs):
            node = st.alloc('AppSequenceNode')
            return vany(z3.If(self.has_app_seq.e, Val.ref(node.e), Val.none), maybe_none=True)

        def app_seq(ex_, st, args, kwargs):
            o = st.alloc('AppSequenceType')
            st.write_field(o, 'InstanceId', self.instance_id)
            return o

        def from_node(ex_, st, args, kwargs):
            return self.body_of(ex_, st)
        def service(ex_, st, args, kwargs):
            o = st.alloc((SVC, 'Service'))
            st.ghost['calls'] += (('Service', tuple(st.box(a) for a in args),
                                   tuple(sorted((k, st.box(v)) for k, v in kwargs.items())), st.box(o)),)
            return o
        return {f'{SVC}:Service': Pure(service, name='Service(...) (C14.service_init): logged constructor call'),
                '*.find': Pure(find, name='header_node.find(AppSequence): present or absent'),
                'sdc11073.xml_types.wsd_types:AppSequenceType.from_node': Pure(app_seq, name='AppSequenceType.from_node (C05)'),
                '*.from_node': Pure(from_node, name='<message type>.from_node (C05): object with the members of the message')}

    LOGGED = ('Service', '_add_remote_service', '_remove_remote_service', '_send_resolve')
    TRACKED = LOGGED + ('from_node',)

    def hooks(self, ex):
        chk = self

        class H:
            tracked_names = chk.TRACKED

            @staticmethod
            def on_loop_havoc(ex_, st, node):
                st.ghost['calls'] += (('#loop', ex_.loop_ordinal(node)),)

            @staticmethod
            def on_call(ex_, st, fv, keys, args, kwargs, node):
                name = getattr(fv, 'name', None) or (fv.fn.name if fv.t == 'repo' else None)
                if name == 'from_node' and 'AppSequenceType' in ast.unparse(node.func):
                    o = st.alloc('AppSequenceType')
                    st.write_field(o, 'InstanceId', chk.instance_id)
                    return [(st, o)]
                if name not in chk.LOGGED:
                    return None
                rec = (name, tuple(st.box(a) for a in args), tuple(sorted((k, st.box(v)) for k, v in kwargs.items())))
                st.ghost['calls'] += (rec,)
                return [(st, NONE)]
        return H

    def service_ok(self, st, rec, match_vals, epr, allow_zero_instance=True):
        """rec = ('Service', args, kwargs, obj): the constructor arguments are the members of the message."""
        name, args, kwargs, obj = rec
        kw = dict(kwargs)
        if len(args) != 5 or set(kw) != {'metadata_version'}:
            return z3.BoolVal(False)
        iid = z3.If(self.has_app_seq.e, self.instance_id.e, Val.int(0))
        return z3.And(args[0] == match_vals['Types'].e, args[1] == match_vals['Scopes'].e, args[2] == match_vals['XAddrs'].e,
                      args[3] == epr.e, args[4] == iid, kw['metadata_version'] == match_vals['MetadataVersion'].e)


def _single_announcement_post(self, ex, st0, st, outcome, b):
    calls = [c for c in st.ghost['calls'] if c[0] in ('Service', '_add_remote_service', '_remove_remote_service')]
    if outcome[0] == 'exc':
        ex.oblige(st, 'never_raises_by_itself', z3.BoolVal(outcome[1].cls == '*'), info={'exc': repr(outcome[1])})
        return
    if not calls:
        # only allowed when the AppSequence is missing and missing AppSequences are not tolerated
        ex.oblige(st, 'ignored_only_without_app_sequence', z3.Not(self.has_app_seq.e))
        return
    names = [c[0] for c in calls]
    ex.oblige(st, 'one_service_built_from_the_message_and_added_once', z3.And(
        z3.BoolVal(names == ['Service', '_add_remote_service']),
        self.service_ok(st, calls[0], self.vals, self.epr),
        calls[1][1][0] == calls[0][3]) if names == ['Service', '_add_remote_service'] else z3.BoolVal(False))


@register
class HandleHello(_Announcement):
    id = 'C14.handle_hello'
    target = f'{WSD}:WSDiscovery._handle_received_hello'
    doc = ('a Hello enters the arbitration exactly once as Service(hello.Types, hello.Scopes, hello.XAddrs, '
           'hello.EndpointReference.Address, AppSequence.InstanceId, metadata_version=hello.MetadataVersion)')
    post = _single_announcement_post


@register
class HandleResolveMatches(_Announcement):
    id = 'C14.handle_resolve_matches'
    target = f'{WSD}:WSDiscovery._handle_received_resolve_matches'
    doc = 'a ResolveMatches message enters the arbitration exactly once with the members of its ResolveMatch'
    post = _single_announcement_post

    def body_of(self, ex, st):
        o = st.alloc('ResolveMatchesType')
        st.write_field(o, 'ResolveMatch', self.match)
        return o


@register
class HandleBye(_Announcement):
    id = 'C14.handle_bye'
    target = f'{WSD}:WSDiscovery._handle_received_bye'
    doc = 'a Bye removes exactly the announced endpoint reference from the table (one _remove_remote_service(epr) call)'

    def post(self, ex, st0, st, outcome, b):
        if outcome[0] == 'exc':
            ex.oblige(st, 'never_raises_by_itself', z3.BoolVal(outcome[1].cls == '*'), info={'exc': repr(outcome[1])})
            return
        calls = [c for c in st.ghost['calls'] if c[0] in ('Service', '_add_remote_service', '_remove_remote_service')]
        ex.oblige(st, 'announced_endpoint_removed_once', z3.And(
            z3.BoolVal(len(calls) == 1 and calls[0][0] == '_remove_remote_service'), calls[0][1][0] == self.epr.e)
            if len(calls) == 1 else z3.BoolVal(False))


@register
class FilterServices(FnCheck):
    id = 'C14.filter_services'
    prop = 'C14'
    target = f'{WSD}:filter_services'
    doc = ('filter_services(services, types, scopes): exactly the given services for which matches_filter (C14.matches_filter) '
           'holds with these types and scopes - every returned service is one of the given ones and matches, every given '
           'service that matches is returned; the given collection is not changed')

    def setup(self, b):
        st = b.st
        self.S = z3.Const('services', SeqVal)
        lst = b.obj('services_list')
        st.assume(z3.Select(st.get_arr('C'), lst.e) == b.ex.ctx.builtin_class_ids['list'])
        st.assume(z3.Select(st.get_arr('L'), lst.e) == self.S)
        self.lst = lst
        self.types, self.scopes = b.any('types', maybe_none=True), b.any('scopes', maybe_none=True)
        self.MF = z3.Function('matches_filter', Val, Val, Val, BoolS)
        return None, [lst, self.types, self.scopes], {}

    def callees(self, ex):
        return {f'{WSD}:matches_filter': Pure(lambda e, st, a, k: vbool(self.MF(st.box(a[0]), st.box(a[1]), st.box(a[2]))),
                                              name='matches_filter (C14.matches_filter)')}

    def post(self, ex, st0, st, outcome, b):
        if outcome[0] == 'exc':
            ex.oblige(st, 'never_raises', z3.BoolVal(False), info={'exc': repr(outcome[1])})
            return
        r = ex.concrete_kind(st, outcome[1], ('ref',))
        R = st.list_seq(r)
        i, j = z3.Int('i!fs'), z3.Int('j!fs')
        ok = lambda s: self.MF(s, self.types.e, self.scopes.e)   # noqa: E731
        ex.oblige(st, 'every_returned_service_is_a_given_one_that_matches', z3.ForAll([j], z3.Implies(
            z3.And(0 <= j, j < z3.Length(R)),
            z3.Exists([i], z3.And(0 <= i, i < z3.Length(self.S), self.S[i] == R[j], ok(self.S[i]))))))
        ex.oblige(st, 'every_given_service_that_matches_is_returned', z3.ForAll([i], z3.Implies(
            z3.And(0 <= i, i < z3.Length(self.S), ok(self.S[i])),
            z3.Exists([j], z3.And(0 <= j, j < z3.Length(R), R[j] == self.S[i])))))
        ex.oblige(st, 'given_collection_untouched', st.list_seq(self.lst) == self.S)


import ast as _ast14   # noqa: E402
from pyvc.api import ScanCheck as _ScanCheck14   # noqa: E402


@register
class EveryProbeMatchEntersTheArbitration(_ScanCheck14):
    id = 'C14.every_probe_match_entry_enters_the_arbitration'
    prop = 'C14'
    doc = ('_handle_received_probe_matches: a ProbeMatches message may carry several ProbeMatch entries; the loop over them '
           'has no early exit (no return / break in its body) and its body unconditionally builds a Service from the '
           'members of THAT entry and hands it to _add_remote_service (metadata-version arbitration: '
           'C14.add_remote_service) - an odd entry cannot keep later entries of the same message out of the table')

    def scan(self, repo):
        mod = repo.module(WSD)
        cd = mod.classes['WSDiscovery']
        fn = next((f for f in cd.body if isinstance(f, _ast14.FunctionDef) and f.name == '_handle_received_probe_matches'), None)
        if fn is None:
            return [('handler_found', False, {})]
        loops = [n for n in _ast14.walk(fn) if isinstance(n, _ast14.For) and _ast14.unparse(n.iter).endswith('.ProbeMatch')]
        out = [('one_loop_over_the_entries', len(loops) == 1, {'n': len(loops)})]
        if len(loops) != 1:
            return out
        loop = loops[0]
        v = _ast14.unparse(loop.target)
        exits = [type(n).__name__ for s in loop.body for n in _ast14.walk(s) if isinstance(n, (_ast14.Return, _ast14.Break, _ast14.Raise))]
        out.append(('no_early_exit_from_the_loop', not exits, {'found': str(exits)}))
        top_calls = [s for s in loop.body if isinstance(s, _ast14.Expr) and isinstance(s.value, _ast14.Call)
                     and _ast14.unparse(s.value.func) == 'self._add_remote_service']
        # statements before that call must not be able to skip it: no `continue` and no if/try around it
        idx = loop.body.index(top_calls[0]) if top_calls else -1
        skips = [type(n).__name__ for s in loop.body[:max(idx, 0)] for n in _ast14.walk(s) if isinstance(n, _ast14.Continue)]
        out.append(('every_entry_is_added_unconditionally', len(top_calls) == 1 and not skips, {'skips': str(skips)}))
        built = [s for s in loop.body[:max(idx, 0)] if isinstance(s, _ast14.Assign) and isinstance(s.value, _ast14.Call)
                 and _ast14.unparse(s.value.func) == 'Service']
        uses_entry = bool(built) and all(
            any(isinstance(x, _ast14.Name) and x.id in (v, 'epr', 'scopes', 'instance_id') for x in _ast14.walk(a))
            for a in list(built[-1].value.args) + [k.value for k in built[-1].value.keywords])
        arg_ok = bool(top_calls) and bool(built) and _ast14.unparse(top_calls[0].value.args[0]) == _ast14.unparse(built[-1].targets[0])
        out.append(('the_service_is_built_from_the_members_of_that_entry', uses_entry and arg_ok, {}))
        return out
