"""Seeded random provider transaction histories (all transaction kinds) on a running native.loopback.Loop."""
import random

import native.loopback  # noqa: F401  (sys.path for the tests package)
from decimal import Decimal

from sdc11073.xml_types import pm_qnames as pm
from sdc11073.xml_types import pm_types
from tests import utils

from native import mdibtools as mt

KINDS = ('metric', 'alert', 'component', 'operational', 'context', 'location', 'rt', 'descr_update', 'descr_create',
         'descr_delete', 'descr_recreate', 'descr_create_siblings', 'descr_delete_siblings', 'mixed_descr_and_state',
         'entity_state', 'entity_context', 'entity_descriptor', 'stale_entity', 'descr_update_context',
         'entity_descriptor_context', 'entity_remove_recreate', 'entity_new_tree', 'entity_write_many',
         'context_descr_remove_recreate')


class History:
    def __init__(self, loop, seed):
        self.lp = loop
        self.rnd = random.Random(seed)
        self.mdib = loop.pmdib
        self.created = []     # handles created by this history that currently exist
        self.deleted = []     # handles created and deleted again (candidates for re-creation)
        self.counter = 0
        self.log = []

    # -- single steps ------------------------------------------------------------------------------------------
    def step(self, kind=None):
        kind = kind or self.rnd.choice(KINDS)
        self.counter += 1
        fn = getattr(self, 'do_' + kind)
        detail = fn()
        self.log.append((kind, detail))
        return kind, detail

    def _pick(self, handles, lo=1, hi=3):
        handles = list(handles)
        self.rnd.shuffle(handles)
        return handles[:self.rnd.randint(lo, min(hi, len(handles)))]

    def do_metric(self):
        hs = self._pick([h for h in mt.metric_handles(self.mdib)])
        with self.mdib.metric_state_transaction() as tr:
            for h in hs:
                st = tr.get_state(h)
                if st.MetricValue is None:
                    st.mk_metric_value()
                if st.is_numeric_metric_state if hasattr(st, 'is_numeric_metric_state') else st.NODETYPE == pm.NumericMetricState:
                    st.MetricValue.Value = Decimal(self.rnd.randrange(-10 ** 5, 10 ** 5)) / Decimal(10 ** self.rnd.randrange(0, 4))
                elif st.NODETYPE in (pm.StringMetricState, pm.EnumStringMetricState):
                    st.MetricValue.Value = self.rnd.choice(['a', 'Ärzte & <Co>', 'x y', '日本'])
                st.MetricValue.MetricQuality.Validity = self.rnd.choice(list(pm_types.MeasurementValidity))
                st.ActivationState = self.rnd.choice(list(pm_types.ComponentActivation))
                if self.rnd.random() < 0.3:
                    st.LifeTimePeriod = self.rnd.randrange(1, 100)
        return hs

    def do_alert(self):
        hs = self._pick(mt.alert_handles(self.mdib))
        with self.mdib.alert_state_transaction() as tr:
            for h in hs:
                st = tr.get_state(h)
                if st.is_alert_condition:
                    st.Presence = not st.Presence
                    st.ActivationState = self.rnd.choice(list(pm_types.AlertActivation))
                elif hasattr(st, 'Presence') and st.NODETYPE == pm.AlertSignalState:
                    st.Slot = self.rnd.randrange(0, 5)
                else:
                    st.ActivationState = self.rnd.choice(list(pm_types.AlertActivation))
        return hs

    def do_component(self):
        hs = self._pick(mt.component_handles(self.mdib))
        with self.mdib.component_state_transaction() as tr:
            for h in hs:
                st = tr.get_state(h)
                st.OperatingHours = self.rnd.randrange(0, 10 ** 6)
                st.ActivationState = self.rnd.choice(list(pm_types.ComponentActivation))
        return hs

    def do_operational(self):
        hs = self._pick(mt.operation_handles(self.mdib))
        with self.mdib.operational_state_transaction() as tr:
            for h in hs:
                st = tr.get_state(h)
                st.OperatingMode = self.rnd.choice(list(pm_types.OperatingMode))
        return hs

    def do_context(self):
        descr = [d for d in self.mdib.descriptions.objects if d.NODETYPE == pm.PatientContextDescriptor]
        if not descr:
            return self.do_metric()
        d = self.rnd.choice(descr)
        with self.mdib.context_state_transaction() as tr:
            existing = [s for s in self.mdib.context_states.descriptor_handle.get(d.Handle, [])]
            if existing and self.rnd.random() < 0.5:
                st = tr.get_context_state(self.rnd.choice(existing).Handle)
                st.CoreData.Givenname = self.rnd.choice(['Max', 'Ärnie', 'A&B'])
                st.ContextAssociation = self.rnd.choice(list(pm_types.ContextAssociation))
            else:
                st = tr.mk_context_state(d.Handle, set_associated=True)
                st.CoreData.Givenname = 'Moritz%d' % self.counter
                st.CoreData.Weight = pm_types.Measurement(Decimal(self.rnd.randrange(30, 150)), pm_types.CodedValue('kg'))
        return [d.Handle]

    def do_location(self):
        self.lp.provider.set_location(utils.random_location(), [pm_types.InstanceIdentifier('Validator', extension_string='System')])
        return []

    def do_rt(self):
        hs = [s.DescriptorHandle for s in self.mdib.states.objects if s.is_realtime_sample_array_metric_state]
        if not hs:
            return self.do_metric()
        hs = self._pick(hs, 1, 2)
        with self.mdib.rt_sample_state_transaction() as tr:
            for h in hs:
                st = tr.get_state(h)
                if st.MetricValue is None:
                    st.mk_metric_value()
                st.MetricValue.Samples = [Decimal(self.rnd.randrange(-500, 500)) / 10 for _ in range(self.rnd.randrange(1, 6))]
                st.MetricValue.DeterminationTime = 1700000000 + self.counter
        return hs

    def do_descr_update(self):
        cands = [d for d in self.mdib.descriptions.objects if d.NODETYPE == pm.NumericMetricDescriptor]
        ds = self._pick([d.Handle for d in cands], 1, 2)
        with self.mdib.descriptor_transaction() as tr:
            for h in ds:
                d = tr.get_descriptor(h)
                d.DeterminationPeriod = self.rnd.randrange(1, 1000) / 10
                d.SafetyClassification = self.rnd.choice(list(pm_types.SafetyClassification))
        return ds

    def _new_descriptor(self, handle, parent):
        cls = self.mdib.data_model.get_descriptor_container_class(pm.NumericMetricDescriptor)
        d = cls(handle=handle, parent_handle=parent)
        d.Type = pm_types.CodedValue(str(self.rnd.randrange(1, 99999)))
        d.Unit = pm_types.CodedValue('unit%d' % self.counter)
        d.Resolution = Decimal('0.%d' % self.rnd.randrange(1, 99))
        d.MetricCategory = pm_types.MetricCategory.MEASUREMENT
        d.MetricAvailability = pm_types.MetricAvailability.CONTINUOUS
        return d

    def _add(self, tr, handle, parent):
        """A new metric descriptor together with its state (a descriptor without state is not a valid MDIB)."""
        d = self._new_descriptor(handle, parent)
        st = self.mdib.data_model.mk_state_container(d)
        st.ActivationState = self.rnd.choice(list(pm_types.ComponentActivation))
        tr.add_descriptor(d, state_container=st)

    def do_descr_create(self):
        channels = [d.Handle for d in self.mdib.descriptions.objects if d.NODETYPE == pm.ChannelDescriptor]
        parent = self.rnd.choice(sorted(channels))
        handle = 'verif_created_%d' % self.counter
        with self.mdib.descriptor_transaction() as tr:
            self._add(tr, handle, parent)
        self.created.append((handle, parent))
        return [handle]

    def do_descr_create_siblings(self):
        """Two (or three) children under one parent in ONE transaction: the parent version is bumped per child."""
        channels = [d.Handle for d in self.mdib.descriptions.objects if d.NODETYPE == pm.ChannelDescriptor]
        parent = self.rnd.choice(sorted(channels))
        handles = ['verif_sib_%d_%d' % (self.counter, i) for i in range(self.rnd.randint(2, 3))]
        with self.mdib.descriptor_transaction() as tr:
            for h in handles:
                self._add(tr, h, parent)
        self.created.extend((h, parent) for h in handles)
        return handles

    def do_descr_delete_siblings(self):
        by_parent = {}
        for h, p in self.created:
            by_parent.setdefault(p, []).append(h)
        groups = [v for v in by_parent.values() if len(v) >= 2]
        if not groups:
            return self.do_descr_create_siblings()
        victims = self.rnd.choice(groups)[:2]
        with self.mdib.descriptor_transaction() as tr:
            for h in victims:
                tr.remove_descriptor(h)
        for h in victims:
            entry = [e for e in self.created if e[0] == h][0]
            self.created.remove(entry)
            self.deleted.append(entry)
        return victims

    def do_mixed_descr_and_state(self):
        """Two descriptor updates, one of them together with its own state, in one descriptor transaction."""
        cands = sorted(d.Handle for d in self.mdib.descriptions.objects if d.NODETYPE == pm.NumericMetricDescriptor)
        if len(cands) < 2:
            return self.do_descr_update()
        a, b_ = self.rnd.sample(cands, 2)
        with self.mdib.descriptor_transaction() as tr:
            tr.get_descriptor(a).DeterminationPeriod = self.rnd.randrange(1, 500) / 10
            tr.get_descriptor(b_).SafetyClassification = self.rnd.choice(list(pm_types.SafetyClassification))
            st = tr.get_state(b_)
            st.ActivationState = self.rnd.choice(list(pm_types.ComponentActivation))
        return [a, b_]

    def do_descr_update_context(self):
        """Update a context descriptor that owns at least two context states (all of them are reported with it)."""
        descr = [d for d in self.mdib.descriptions.objects if d.NODETYPE == pm.PatientContextDescriptor]
        if not descr:
            return self.do_descr_update()
        d = descr[0]
        while len(self.mdib.context_states.descriptor_handle.get(d.Handle, [])) < 2:
            with self.mdib.context_state_transaction() as tr:
                st = tr.mk_context_state(d.Handle)
                st.CoreData.Givenname = 'Extra%d' % self.counter
        with self.mdib.descriptor_transaction() as tr:
            tr.get_descriptor(d.Handle).SafetyClassification = self.rnd.choice(list(pm_types.SafetyClassification))
        return [d.Handle]

    # -- entity interface --------------------------------------------------------------------------------------
    def do_entity_state(self):
        h = self.rnd.choice(mt.metric_handles(self.mdib))
        ent = self.mdib.entities.by_handle(h)
        ent.state.ActivationState = self.rnd.choice(list(pm_types.ComponentActivation))
        with self.mdib.metric_state_transaction() as tr:
            tr.write_entity(ent)
        return [h]

    def do_entity_context(self):
        descr = [d for d in self.mdib.descriptions.objects if d.NODETYPE == pm.PatientContextDescriptor]
        if not descr:
            return self.do_entity_state()
        d = self.rnd.choice(descr)
        ent = self.mdib.entities.by_handle(d.Handle)
        if ent.states and self.rnd.random() < 0.6:
            h = self.rnd.choice(sorted(ent.states))
            ent.states[h].CoreData.Familyname = 'F%d' % self.counter
        else:
            st = ent.new_state()
            st.CoreData.Givenname = 'E%d' % self.counter
            h = st.Handle
        with self.mdib.context_state_transaction() as tr:
            tr.write_entity(ent, [h])
        return [d.Handle, h]

    def do_entity_descriptor(self):
        cands = sorted(d.Handle for d in self.mdib.descriptions.objects if d.NODETYPE == pm.NumericMetricDescriptor)
        h = self.rnd.choice(cands)
        ent = self.mdib.entities.by_handle(h)
        ent.descriptor.DeterminationPeriod = self.rnd.randrange(1, 900) / 10
        ent.state.ActivationState = self.rnd.choice(list(pm_types.ComponentActivation))
        with self.mdib.descriptor_transaction() as tr:
            tr.write_entity(ent)
        return [h]

    def do_entity_descriptor_context(self):
        """A context descriptor entity (descriptor + all its context states) written through a descriptor transaction."""
        descr = [d for d in self.mdib.descriptions.objects if d.NODETYPE == pm.PatientContextDescriptor]
        if not descr:
            return self.do_entity_descriptor()
        d = descr[0]
        ent = self.mdib.entities.by_handle(d.Handle)
        ent.descriptor.SafetyClassification = self.rnd.choice(list(pm_types.SafetyClassification))
        if ent.states:
            h = sorted(ent.states)[0]
            ent.states[h].CoreData.Title = 'T%d' % self.counter
        r = self.rnd.random()
        if r < 0.4:
            st = ent.new_state()
            st.CoreData.Givenname = 'New%d' % self.counter
        elif r < 0.7 and len(ent.states) > 1:
            del ent.states[sorted(ent.states)[-1]]      # the entity drops one of its context states: deleted at commit
        with self.mdib.descriptor_transaction() as tr:
            tr.write_entity(ent)
        return [d.Handle]

    def do_entity_remove_recreate(self):
        """Remove a created metric through the entity interface and write the old entity again (re-creation)."""
        if not self.created:
            self.do_descr_create()
        handle, parent = self.created[-1]
        ent = self.mdib.entities.by_handle(handle)
        with self.mdib.descriptor_transaction() as tr:
            tr.remove_entity(ent)
        with self.mdib.descriptor_transaction() as tr:
            tr.write_entity(ent)
        return [handle]

    def do_context_descr_remove_recreate(self):
        """A patient context descriptor with at least two (sometimes three or five) context states is removed - all its
        states have to go with it - and created again under the same handle in the next transaction."""
        descr = sorted((d for d in self.mdib.descriptions.objects if d.NODETYPE == pm.PatientContextDescriptor), key=lambda d: d.Handle)
        if not descr:
            return self.do_metric()
        d = self.rnd.choice(descr)
        want = self.rnd.choice([2, 2, 3, 5])
        have = len(self.mdib.context_states.descriptor_handle.get(d.Handle, []))
        if have < want:
            with self.mdib.context_state_transaction() as tr:
                for i in range(want - have):
                    st = tr.mk_context_state(d.Handle, set_associated=(i == 0))
                    st.CoreData.Givenname = 'Extra%d_%d' % (self.counter, i)
        copy_d = d.mk_copy()
        with self.mdib.descriptor_transaction() as tr:
            tr.remove_descriptor(d.Handle)
        with self.mdib.descriptor_transaction() as tr:
            tr.add_descriptor(copy_d)
        return [d.Handle]

    def do_entity_new_tree(self):
        """A new channel with two new metrics below it, created as entities and written with write_entities
        (children listed before the parent: the transaction has to order them)."""
        vmds = sorted(d.Handle for d in self.mdib.descriptions.objects if d.NODETYPE == pm.VmdDescriptor)
        if not vmds:
            return self.do_descr_create()
        vmd = self.rnd.choice(vmds)
        ch = 'verif_ch_%d' % self.counter
        ents = self.mdib.entities
        channel = ents.new_entity(pm.ChannelDescriptor, ch, vmd)
        # children of a parent that does not exist yet cannot be made with new_entity: build them directly
        from sdc11073.mdib import mdibbase as _mb
        kids = []
        for i in range(2):
            h = 'verif_chm_%d_%d' % (self.counter, i)
            d = self._new_descriptor(h, ch)
            d.set_source_mds(channel.descriptor.source_mds)
            st = self.mdib.data_model.mk_state_container(d)
            kids.append(_mb.Entity(self.mdib, d, st))
        with self.mdib.descriptor_transaction() as tr:
            tr.write_entities(kids + [channel])
        for k in kids:
            self.created.append((k.handle, ch))
        return [ch] + [k.handle for k in kids]

    def do_entity_write_many(self):
        hs = self._pick(mt.metric_handles(self.mdib), 2, 3)
        ents = [self.mdib.entities.by_handle(h) for h in hs]
        for e in ents:
            e.state.ActivationState = self.rnd.choice(list(pm_types.ComponentActivation))
        with self.mdib.metric_state_transaction() as tr:
            tr.write_entities(ents)
        return hs

    def do_stale_entity(self):
        """An entity read BEFORE its descriptor is updated is written afterwards (single state or context state)."""
        ctx = [d for d in self.mdib.descriptions.objects if d.NODETYPE == pm.PatientContextDescriptor
               and self.mdib.context_states.descriptor_handle.get(d.Handle)]
        self._stale_calls = getattr(self, '_stale_calls', 0) + 1
        use_ctx = bool(ctx) and self._stale_calls % 2 == 1      # alternate: context state / single state
        if use_ctx:
            d = self.rnd.choice(ctx)
            h = d.Handle
        else:
            h = self.rnd.choice(sorted(x.Handle for x in self.mdib.descriptions.objects if x.NODETYPE == pm.NumericMetricDescriptor))
        ent = self.mdib.entities.by_handle(h)
        with self.mdib.descriptor_transaction() as tr:
            tr.get_descriptor(h).SafetyClassification = self.rnd.choice(list(pm_types.SafetyClassification))
        if use_ctx:
            sh = sorted(ent.states)[0]
            ent.states[sh].CoreData.Birthname = 'B%d' % self.counter
            with self.mdib.context_state_transaction() as tr:
                tr.write_entity(ent, [sh])
        else:
            ent.state.LifeTimePeriod = float(self.counter)
            with self.mdib.metric_state_transaction() as tr:
                tr.write_entity(ent)
        return [h]

    def do_descr_delete(self):
        if not self.created:
            return self.do_descr_create()
        handle, parent = self.created.pop(self.rnd.randrange(len(self.created)))
        with self.mdib.descriptor_transaction() as tr:
            tr.remove_descriptor(handle)
        self.deleted.append((handle, parent))
        return [handle]

    def do_descr_recreate(self):
        if not self.deleted:
            return self.do_descr_delete()
        handle, parent = self.deleted.pop(self.rnd.randrange(len(self.deleted)))
        with self.mdib.descriptor_transaction() as tr:
            self._add(tr, handle, parent)
        self.created.append((handle, parent))
        return [handle]
