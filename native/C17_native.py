"""C17 bounded stand-ins [B]: Accept-Encoding tokenizer, chunk/de-chunk and coding round trips, client coding choice."""
import io
import itertools
import os
import random
import types

from native.nativelib import Collector, tier
from sdc11073.httpserver import compression, httpreader

SEED = int(os.environ.get('VERIF_SEED', '0') or 0)


def spec_parse(header):
    """Accept-Encoding per RFC 9110 12.5.3, sloppy whitespace tolerated: tokens with q > 0 sorted by q descending
    (stable), later duplicates of a token override earlier ones; q defaults to 1; unparsable q -> 1."""
    if not header:
        return []
    items = {}
    order = []
    for part in header.split(','):
        fields = part.split(';')
        name = fields[0].strip()
        q = 1.0
        if len(fields) > 1:
            kv = fields[1].split('=')
            if len(kv) > 1:
                try:
                    q = float(kv[1])
                except ValueError:
                    q = 1.0
        if name not in items:
            order.append(name)
        items[name] = q
    ranked = sorted(order, key=lambda n: -items[n])
    return [n for n in ranked if items[n] > 0]


def parse_header_cases():
    names = ['gzip', 'lz4', 'identity', '*', 'x-lz4', 'br']
    qs = ['', ';q=1', ';q=0.5', '; q=0.5', ';q= 0.9', ';q=0', ';q=0.0', '; q = 0', ';q=abc', ';q', ';level=1', ';q=1.0',
          ';', ';q=', ';q=1.0.0', ';q=0x1']
    seps = [',', ', ', ' ,', ' , ']
    cases, bad = 0, []
    rnd = random.Random(SEED)
    headers = [None, '', 'gzip', '*', 'gzip;q=0', 'gzip;q=0, identity', 'identity;q=0, gzip', 'gzip, gzip;q=0']
    for a, b in itertools.permutations(names, 2):
        for qa, qb in itertools.product(qs, qs):
            headers.append(f'{a}{qa}{rnd.choice(seps)}{b}{qb}')
    for h in headers:
        cases += 1
        try:
            got = compression.CompressionHandler.parse_header(h)
        except Exception as ex:  # noqa: BLE001
            # the header comes from the peer and is parsed after the request was processed: it must never raise
            bad.append({'key': f'parse-header-raises-{type(ex).__name__}', 'detail': f'parse_header({h!r}) raises {ex!r}'})
            if len(bad) > 3:
                break
            continue
        want = spec_parse(h)
        if got != want:
            bad.append({'key': 'parse-header-q0-accepted' if set(got) - set(want) else 'parse-header-differs',
                        'detail': f'parse_header({h!r}) = {got!r}, Accept-Encoding semantics give {want!r}'})
            if len(bad) > 3:
                break
    return cases, bad


def chunk_roundtrip():
    rnd = random.Random(SEED + 1)
    cases, bad = 0, []
    bodies = [b'', b'a', b'ab', b'\r\n', b'0\r\n\r\n', bytes(range(256)), b'x' * 511, b'x' * 512, b'x' * 513,
              rnd.randbytes(4096), rnd.randbytes(65537)]
    if tier() == 'thorough':
        bodies.append(rnd.randbytes(4 * 1024 * 1024))
    sizes = [1, 2, 3, 15, 16, 17, 255, 256, 512, 4096, 10 ** 6]
    for body in bodies:
        for c in sizes:
            if c < 16 and len(body) > 5000:
                continue
            cases += 1
            data = httpreader.mk_chunks(body, c)
            # independent HTTP/1.1 grammar check of the framing
            pos, out = 0, []
            ok = True
            while True:
                eol = data.find(b'\r\n', pos)
                if eol < 0:
                    ok = False
                    break
                n = int(data[pos:eol], 16)
                chunk = data[eol + 2:eol + 2 + n]
                if len(chunk) != n or data[eol + 2 + n:eol + 4 + n] != b'\r\n':
                    ok = False
                    break
                pos = eol + 4 + n
                if n == 0:
                    break
                if n > c:
                    ok = False
                    break
                out.append(chunk)
            if not ok or pos != len(data) or b''.join(out) != body:
                bad.append({'key': 'chunk-framing-invalid', 'detail': f'mk_chunks(len={len(body)}, {c}) is not valid chunked coding of the body'})
                continue
            back = httpreader.HTTPReader._read_dechunk(io.BytesIO(data))
            if back != body:
                bad.append({'key': 'dechunk-roundtrip', 'detail': f'body len {len(body)} chunk {c}: de-chunked differs'})
    return cases, bad


def coding_roundtrip():
    rnd = random.Random(SEED + 2)
    cases, bad = 0, []
    bodies = [b'', b'a', b'<x/>' * 1000, rnd.randbytes(70000)]
    for enc in list(compression.CompressionHandler.available_encodings):
        for body in bodies:
            cases += 1
            comp = compression.CompressionHandler.compress_payload(enc, body)
            for reader, mk in ((httpreader.HTTPReader.read_request_body, _mk_request), (httpreader.HTTPReader.read_response_body, _mk_response)):
                back = reader(mk(comp, enc, chunked=False))
                back2 = reader(mk(comp, enc, chunked=True))
                if back != body or back2 != body:
                    bad.append({'key': f'coding-roundtrip-{enc}', 'detail': f'{enc}: body len {len(body)} not restored'})
            # corrupt data must be rejected, not misinterpreted
            if len(comp) > 8:
                corrupt = comp[:6] + bytes([comp[6] ^ 0xff]) + comp[7:-3]
                try:
                    r = httpreader.HTTPReader.read_request_body(_mk_request(corrupt, enc, False))
                    if r != body:
                        bad.append({'key': f'corrupt-accepted-{enc}', 'detail': f'{enc}: corrupt payload decoded to different bytes without error'})
                except Exception:  # noqa: BLE001
                    pass
    # truncated streams: every strict prefix of an encoded body is an incomplete message and must be rejected
    for enc in list(compression.CompressionHandler.available_encodings):
        for body in (b'<a>hello</a>', b'<x/>' * 3000):
            comp = compression.CompressionHandler.compress_payload(enc, body)
            cuts = range(0, len(comp)) if len(comp) < 80 else sorted({0, 1, 5, 10, 11, 18, len(comp) // 2, len(comp) - 9, len(comp) - 8,
                                                                       len(comp) - 5, len(comp) - 4, len(comp) - 1})
            for k in cuts:
                cases += 1
                for reader, mk in ((httpreader.HTTPReader.read_request_body, _mk_request), (httpreader.HTTPReader.read_response_body, _mk_response)):
                    try:
                        r = reader(mk(comp[:k], enc, chunked=False))
                    except Exception:  # noqa: BLE001
                        continue
                    bad.append({'key': f'truncated-accepted-{enc}', 'detail': f'{enc}: first {k} of {len(comp)} encoded bytes accepted, decoded to {len(r)} bytes (body has {len(body)})'})
                    break
    for unknown in ('br', 'deflate', 'GZIP ', 'zstd'):
        cases += 1
        try:
            httpreader.HTTPReader.read_request_body(_mk_request(b'xx', unknown, False))
            bad.append({'key': 'unknown-coding-accepted', 'detail': f'content-encoding {unknown!r} accepted'})
        except httpreader.DecompressError:
            pass
    return cases, bad


def _mk_request(payload, enc, chunked):
    headers = {'content-encoding': enc}
    if chunked:
        headers['transfer-encoding'] = 'chunked'
        data = httpreader.mk_chunks(payload, 100)
    else:
        headers['content-length'] = str(len(payload))
        data = payload
    return types.SimpleNamespace(headers=headers, rfile=io.BytesIO(data))


def _mk_response(payload, enc, chunked):
    headers = {'content-encoding': enc}
    if not chunked:
        headers['content-length'] = str(len(payload))
    else:
        headers['transfer-encoding'] = 'chunked'   # http.client already de-chunks; read() returns payload then b''
    stream = io.BytesIO(payload)

    def read(n=None):
        return stream.read() if n is None else stream.read(n)
    return types.SimpleNamespace(getheader=lambda k, d=None: headers.get(k, d), read=read)


def client_coding_choice():
    """SoapClient._send_soap_request: the request coding is the first of request_encodings that is enabled."""
    from sdc11073.pysoap import soapclient
    import logging
    cases, bad = 0, []
    encs = [[], ['gzip'], ['lz4'], ['gzip', 'lz4'], ['lz4', 'gzip'], ['br', 'gzip'], ['br']]
    for req, sup in itertools.product(encs, encs):
        cases += 1
        sent = {}

        class Conn:
            def request(self, method, path, body=None, headers=None):
                sent['headers'] = dict(headers)
                sent['body'] = body

            def getresponse(self):
                raise OSError('stop here')

            def close(self):
                pass
        # the configuration goes through the real constructor (an empty list means "no compression", None means
        # "every registered coding")
        log = types.SimpleNamespace(debug=lambda *a, **k: None, warn=lambda *a, **k: None, info=lambda *a, **k: None,
                                    warning=lambda *a, **k: None, error=lambda *a, **k: None)
        real = soapclient.SoapClient('127.0.0.1:9', 1, log, None, None, None, supported_encodings=list(sup), request_encodings=list(req))
        if list(real.supported_encodings) != list(sup) or list(real.request_encodings) != list(req):
            bad.append({'key': 'client-configuration', 'detail': f'SoapClient(supported_encodings={sup}, request_encodings={req}) is configured with {list(real.supported_encodings)} / {list(real.request_encodings)}'})
        fake = types.SimpleNamespace(
            supported_encodings=real.supported_encodings, request_encodings=real.request_encodings, _chunk_size=0,
            _http_connection=Conn(), _netloc='x', netloc='x', _log=log,
            _close_without_lock=lambda: None, _has_connection_error=False)
        body = b'<x/>' * 50
        try:
            soapclient.SoapClient._send_soap_request(fake, '/p', body, 'msg')
        except Exception:  # noqa: BLE001
            pass
        hdr = sent.get('headers', {})
        ce = hdr.get('Content-Encoding')
        usable = [e for e in req if e in sup and e in compression.CompressionHandler.available_encodings or (e in req and e in sup)]
        want = next((e for e in req if e in sup), None)
        if want is not None and want not in compression.CompressionHandler.available_encodings:
            continue   # compress_payload raises for codings without handler: nothing is sent
        if ce != want:
            bad.append({'key': 'client-coding-choice', 'detail': f'request_encodings={req} supported={sup}: Content-Encoding {ce!r}, expected {want!r}'})
        elif ce is None and sent.get('body') != body:
            bad.append({'key': 'client-identity-changed', 'detail': 'identity body changed'})
        elif ce is not None and compression.CompressionHandler.decompress_payload(ce, sent['body']) != body:
            bad.append({'key': 'client-coding-roundtrip', 'detail': f'{ce}: sent body does not decode to the request'})
        if sup and hdr.get('Accept-Encoding') != ','.join(sup):
            bad.append({'key': 'client-accept-encoding', 'detail': f'Accept-Encoding {hdr.get("Accept-Encoding")!r} for {sup}'})
    cases += 1
    log = types.SimpleNamespace(debug=lambda *a, **k: None, warn=lambda *a, **k: None, info=lambda *a, **k: None)
    dflt = soapclient.SoapClient('127.0.0.1:9', 1, log, None, None, None)
    if list(dflt.supported_encodings) != list(compression.CompressionHandler.available_encodings) or list(dflt.request_encodings):
        bad.append({'key': 'client-configuration', 'detail': f'default SoapClient: supported {list(dflt.supported_encodings)}, request {list(dflt.request_encodings)}'})
    return cases, bad


def async_client_coding_choice():
    """SoapClientAsync.async_post_message_to (notifications of the asynchronous subscription manager): the request
    coding, if any, is enabled locally and acceptable to the peer. request_encodings is given both ways the library
    supplies it: as a list of acceptable codings and as the raw Accept-Encoding header of the Subscribe request (that is
    what the asynchronous manager passes on)."""
    import asyncio
    from sdc11073.pysoap import soapclient_async
    cases, bad = 0, []
    avail = list(compression.CompressionHandler.available_encodings)
    sups = [[], avail[:1], avail[-1:], list(avail)]
    reqs = [[], avail[:1], list(reversed(avail)), ['br'] + avail[:1],
            ','.join(avail), avail[0] + ';q=0', 'identity, ' + avail[-1] + ';q=0', avail[0] + ';q=0, ' + avail[-1] + ';q=0.5',
            'br;q=1, ' + avail[0] + ';q=0.0', avail[0]]
    for req, sup in itertools.product(reqs, sups):
        cases += 1
        sent = {}

        class Resp:
            status, reason = 200, 'Ok'

            async def text(self):
                return ''

            async def __aenter__(self):
                return self

            async def __aexit__(self, *a):
                return False

        class Conn:
            def post(self, path, data=None, headers=None, **_options):
                sent['headers'] = dict(headers)
                sent['body'] = data
                return Resp()
        msg = types.SimpleNamespace(p_msg=None, serialize=lambda request_manipulator=None: b'<?xml version="1.0" encoding="utf-8"?><x/>' * 5)
        fake = types.SimpleNamespace(supported_encodings=list(sup), request_encodings=req, _chunk_size=0, _http_connection=Conn(),
                                     is_closed=lambda: False, _msg_reader=None, roundtrip_time=0)
        try:
            asyncio.run(soapclient_async.SoapClientAsync.async_post_message_to(fake, '/p', msg))
        except Exception as ex:  # noqa: BLE001
            bad.append({'key': 'async-client-raises', 'detail': f'request_encodings={req!r} supported={sup}: {ex!r}'})
            continue
        ce = sent.get('headers', {}).get('Content-Encoding')
        acceptable = list(req) if isinstance(req, list) else spec_parse(req)
        if ce is not None and (ce not in acceptable or ce not in sup):
            bad.append({'key': 'async-client-coding-not-acceptable',
                        'detail': f'request_encodings={req!r} (acceptable: {acceptable}) enabled={sup}: request sent with Content-Encoding {ce!r}'})
        elif ce is not None and compression.CompressionHandler.decompress_payload(ce, sent['body']) != msg.serialize():
            bad.append({'key': 'async-client-coding-roundtrip', 'detail': f'{ce}: sent body does not decode to the request'})
    return cases, bad


def live_configuration():
    """History: start the real http server with the owner's list of enabled codings, then change that list in place
    (what set_used_compression does) and send requests with Accept-Encoding: every response coding must be enabled
    at the time of the request."""
    from sdc11073.httpserver.compression import CompressionHandler
    avail = list(CompressionHandler.available_encodings)
    cases, bad = 0, []
    enabled = list(avail)
    import logging
    from sdc11073.httpserver.httpserverimpl import HttpServerThreadBase
    from native.httpharness import DummyComponent
    import socket
    thread = HttpServerThreadBase('127.0.0.1', None, enabled, logging.getLogger('verif.http'))
    thread.start()
    thread.started_evt.wait(5)
    thread.dispatcher.register_instance('comp', DummyComponent())
    try:
        for step, new in enumerate([list(avail), [], avail[-1:], avail[:1], []]):
            del enabled[:]
            enabled.extend(new)
            for accept in [','.join(avail), avail[0], avail[-1] + ';q=0.5,' + avail[0] + ';q=1']:
                cases += 1
                req = (f'GET /comp HTTP/1.1\r\nHost: x\r\nAccept-Encoding: {accept}\r\nConnection: close\r\n\r\n').encode()
                s = socket.create_connection(('127.0.0.1', thread.server_port), timeout=3)
                s.sendall(req)
                data = b''
                while True:
                    chunk = s.recv(65536)
                    if not chunk:
                        break
                    data += chunk
                s.close()
                head = data.split(b'\r\n\r\n')[0].decode('latin-1').lower()
                used = [ln.split(':', 1)[1].strip() for ln in head.split('\r\n') if ln.startswith('content-encoding:')]
                for u in used:
                    if u not in new:
                        bad.append({'key': 'coding-not-enabled-at-request-time',
                                    'detail': f'step {step}: enabled codings {new} (changed in place after the server '
                                              f'started), Accept-Encoding "{accept}" -> Content-Encoding {u}'})
    finally:
        thread.stop()
    return cases, bad


if __name__ == '__main__':
    c = Collector()
    c.run('C17.parse_header', 'B', parse_header_cases, bound='all ordered pairs of 6 tokens x 12 q-forms each + 8 fixed headers vs an independent RFC 9110 reading')
    c.run('C17.chunk_roundtrip', 'B', chunk_roundtrip, bound='11 bodies (0..65537 bytes, 4 MiB in thorough) x 11 chunk sizes: grammar check + de-chunk')
    c.run('C17.coding_roundtrip', 'B', coding_roundtrip, bound='every registered coding x 4 bodies x request/response x plain/chunked; corrupt and unknown codings')
    c.run('C17.live_configuration', 'B', live_configuration, bound='5 in-place changes of the enabled codings after server start x 3 Accept-Encoding headers')
    c.run('C17.async_client_coding_choice', 'B', async_client_coding_choice, bound='10 request_encodings values (lists and raw Accept-Encoding headers with q-values) x 4 enabled lists on the real coroutine')
    c.run('C17.client_coding_choice', 'B', client_coding_choice, bound='7 x 7 request/supported encoding lists')
    c.emit()
