"""C09: [F] every serial order of the HTTP response and the 1-3 reports of one transaction on the real OperationsManager;
[B] provider side: transaction ids under concurrent requests, direct/queued sequences on the real registry."""
import itertools
import threading
import types

from native.nativelib import Collector
from sdc11073.consumer import operations as cop
from sdc11073.xml_types import msg_types


def _part(tid, state):
    info = types.SimpleNamespace(TransactionId=tid, InvocationState=state)
    return types.SimpleNamespace(InvocationInfo=info, InvocationSource=None, OperationHandleRef='op', OperationTarget='t')


class _Reader:
    msg_types = msg_types


def _manager():
    return cop.OperationsManager(_Reader(), 'verif')


def consumer_all_orders():
    """events: 'R' = response arrives (call_operation returns), numbers = report parts in emission order."""
    S = msg_types.InvocationState
    cases, bad = 0, []
    finals = [S.FINISHED, S.FAILED, S.FINISHED_MOD, S.CANCELLED]
    scenarios = []
    for final in finals:
        scenarios.append(('queued', S.WAIT, [S.WAIT, S.START, final]))
        scenarios.append(('queued-2', S.WAIT, [S.START, final]))
        scenarios.append(('direct', final, [final]))
    for name, resp_state, reports in scenarios:
        n = len(reports)
        for pos in range(n + 1):            # reports keep emission order; the response is interleaved anywhere
            # reports of other consumers' transactions arrive on the same subscription; every own report delivered
            # before the response is followed by a burst of foreign report parts (the consumer keeps a bounded history
            # of 50 early reports - a burst stays well below that)
            for other_tid_noise in (0, 1, 6, 14):
                cases += 1
                mgr = _manager()
                tid = 7
                result = {}

                class Client:
                    def post_message(self, message, msg='', request_manipulator=None):
                        # reports that arrive before the response are delivered while the POST is in flight
                        for st in reports[:pos]:
                            deliver(st)
                            for j in range(other_tid_noise):
                                deliver(S.FINISHED, t=1000 + j)
                        return types.SimpleNamespace(p_msg=types.SimpleNamespace(msg_node=('resp', tid, resp_state)))

                def deliver(state, t=None):
                    rep = types.SimpleNamespace(ReportPart=[_part(t or tid, state)])
                    orig = msg_types.OperationInvokedReport.from_node
                    msg_types.OperationInvokedReport.from_node = staticmethod(lambda node: rep)
                    try:
                        mgr.on_operation_invoked_report(types.SimpleNamespace(p_msg=types.SimpleNamespace(msg_node=None)))
                    finally:
                        msg_types.OperationInvokedReport.from_node = orig
                orig_resp = msg_types.AbstractSetResponse.from_node
                msg_types.AbstractSetResponse.from_node = staticmethod(lambda node: types.SimpleNamespace(
                    InvocationInfo=types.SimpleNamespace(TransactionId=node[1], InvocationState=node[2])))
                try:
                    if other_tid_noise:
                        deliver(S.FINISHED, t=99)
                    fut = mgr.call_operation(Client(), object())
                    done_at = []
                    if fut.done():
                        done_at.append('response')
                    for st in reports[pos:]:
                        was = fut.done()
                        deliver(st)
                        if fut.done() and not was:
                            done_at.append(st)
                finally:
                    msg_types.AbstractSetResponse.from_node = orig_resp
                label = f'{name} response={resp_state.value} reports={[r.value for r in reports]} response after {pos} report(s)'
                if not fut.done():
                    bad.append({'key': 'never-completed', 'detail': f'{label}: result never completes'})
                    continue
                res = fut.result()
                final_state = reports[-1]
                if res.InvocationInfo.InvocationState != final_state:
                    bad.append({'key': 'wrong-final-state', 'detail': f'{label}: completed with {res.InvocationInfo.InvocationState}'})
                if len(done_at) != 1:
                    bad.append({'key': 'completed-more-than-once', 'detail': f'{label}: completed at {done_at}'})
                if done_at == ['response'] and pos < len(reports) and resp_state in (S.FINISHED, S.FINISHED_MOD):
                    # a successful response must wait for its final report part ("all related report parts")
                    bad.append({'key': 'completed-before-final-report', 'detail': f'{label}: completed from the response alone, the final report part is never attached'})
                got = [p.InvocationInfo.InvocationState for p in res.report_parts]
                if any(p.InvocationInfo.TransactionId != tid for p in res.report_parts):
                    bad.append({'key': 'foreign-report-part', 'detail': f'{label}: parts of another transaction in the result'})
                # all related parts delivered up to completion must be in the result
                upto = reports[:max(pos, reports.index(final_state) + 1)] if done_at != ['response'] or pos else reports[:pos]
                want = reports[:pos] if done_at == ['response'] else reports
                if got != want:
                    bad.append({'key': 'report-parts-incomplete', 'detail': f'{label}: result has parts {[g.value for g in got]}, delivered so far {[w.value for w in want]}'})
                if mgr._transactions:
                    bad.append({'key': 'transaction-left-registered', 'detail': f'{label}: {list(mgr._transactions)} still registered'})
    return cases, bad


def provider_transaction_ids():
    from sdc11073.provider import providerimpl
    fake = types.SimpleNamespace(_transaction_id_lock=threading.Lock(), _transaction_id=0)
    out = []
    lock = threading.Lock()

    def worker():
        mine = [providerimpl.SdcProvider.generate_transaction_id(fake) for _ in range(2000)]
        if mine != sorted(mine) or len(set(mine)) != len(mine):
            with lock:
                out.append('not increasing per thread')
        with lock:
            out.extend(mine)
    ts = [threading.Thread(target=worker) for _ in range(8)]
    [t.start() for t in ts]
    [t.join() for t in ts]
    ids = [x for x in out if isinstance(x, int)]
    bad = []
    if len(set(ids)) != len(ids) or sorted(ids) != list(range(1, len(ids) + 1)):
        bad.append({'key': 'transaction-id-duplicate-or-gap', 'detail': f'{len(ids)} ids, {len(set(ids))} distinct'})
    if any(isinstance(x, str) for x in out):
        bad.append({'key': 'transaction-id-not-increasing', 'detail': 'ids not increasing within a thread'})
    return len(ids), bad


def provider_sequences():
    """Real ScoOperationsRegistry + _OperationsWorker with recording set service: legal state sequences."""
    import time
    from sdc11073.provider import sco
    S = msg_types.InvocationState
    cases, bad = 0, []
    for delayed in (False, True):
        for behaviour in ('fin', 'fail', 'finmod', 'raise'):
            cases += 1
            log = []

            class SetService:
                def notify_operation(self, operation, transaction_id, invocation_state, mdib_version_group,
                                     operation_target=None, error=None, error_message=None):
                    log.append((transaction_id, invocation_state, error, error_message))

            class Op:
                handle = 'op1'
                delayed_processing = delayed

                def execute_operation(self, request, operation_request):
                    if behaviour == 'raise':
                        raise ValueError('boom')
                    st = {'fin': S.FINISHED, 'fail': S.FAILED, 'finmod': S.FINISHED_MOD}[behaviour]
                    return types.SimpleNamespace(invocation_state=st, operation_target_handle='t')

                def check_timeout(self):
                    pass
            mdib = types.SimpleNamespace(mdib_version_group=None, data_model=types.SimpleNamespace(msg_types=msg_types))
            reg = sco.ScoOperationsRegistry(SetService(), None, mdib, types.SimpleNamespace(Handle='sco'))
            reg._registered_operations['op1'] = Op()
            reg.start_worker()
            try:
                resp = reg.handle_operation_request(Op(), None, types.SimpleNamespace(argument=None), 5)
                t0 = time.time()
                while delayed and len(log) < 3 and time.time() - t0 < 3:
                    time.sleep(0.01)
            finally:
                reg.stop_worker()
            states = [s for _, s, _, _ in log]
            want_final = {'fin': S.FINISHED, 'fail': S.FAILED, 'finmod': S.FINISHED_MOD, 'raise': S.FAILED}[behaviour]
            label = f'delayed={delayed} handler={behaviour}'
            if any(t != 5 for t, *_ in log):
                bad.append({'key': 'wrong-transaction-id', 'detail': f'{label}: {log}'})
            if delayed:
                if resp != S.WAIT or states != [S.WAIT, S.START, want_final]:
                    bad.append({'key': 'illegal-queued-sequence', 'detail': f'{label}: response {resp}, reports {states}'})
            else:
                if states != [want_final] or resp != want_final:
                    bad.append({'key': 'illegal-direct-sequence', 'detail': f'{label}: response {resp}, reports {states}'})
            if behaviour == 'raise' and (log[-1][2] is None or not log[-1][3]):
                bad.append({'key': 'raise-without-error-info', 'detail': f'{label}: {log[-1]}'})
    return cases, bad


def full_queue():
    """A worker that does not take requests any more (queue full): enqueue_operation must tell the caller within a
    bounded time (queue.Full) - neither drop the request silently nor block the request thread for ever."""
    import queue
    from sdc11073.provider import sco
    worker = sco._OperationsWorker(None, None, None, 'verif')     # never started: nothing drains the queue
    for i in range(worker._operations_queue.maxsize):
        worker._operations_queue.put_nowait((i, None, None, None))
    box = {}

    def call():
        try:
            worker.enqueue_operation(types.SimpleNamespace(handle='op'), None, None, 99)
            box['r'] = 'returned'
        except queue.Full:
            box['r'] = 'full'
        except Exception as ex:  # noqa: BLE001
            box['r'] = repr(ex)
    t = threading.Thread(target=call, daemon=True)
    t.start()
    t.join(4)
    bad = []
    queued = [x for x in list(worker._operations_queue.queue) if x[0] == 99]
    if t.is_alive():
        bad.append({'key': 'enqueue-blocks-without-bound', 'detail': 'enqueue_operation on a full queue did not return within 4 s (request thread hangs)'})
    elif box.get('r') == 'returned' and not queued:
        bad.append({'key': 'request-dropped-silently', 'detail': 'enqueue_operation returned normally on a full queue but the request is not queued: the caller answers Wait and the operation is never processed'})
    elif box.get('r') not in ('full', 'returned'):
        bad.append({'key': 'unexpected-exception', 'detail': f'enqueue_operation on a full queue raised {box.get("r")}'})
    return 1, bad


if __name__ == '__main__':
    c = Collector()
    c.run('C09.consumer_all_orders', 'F', consumer_all_orders,
          bound='every serial order (response interleaved at each position) of the response and the 1-3 reports of a transaction, x 4 final states x direct/queued x bursts of 0/1/6/14 foreign report parts (at most 45 entries in the history of 50) after each early report')
    c.run('C09.provider_transaction_ids', 'B', provider_transaction_ids, bound='8 threads x 2000 ids')
    c.run('C09.provider_sequences', 'B', provider_sequences, bound='direct/queued x handler returns Fin/Fail/FinMod or raises, on the real registry and worker thread')
    c.run('C09.full_queue', 'B', full_queue, bound='one request against a full worker queue (10 entries), 4 s limit')
    c.emit()
