"""Native replay oracles for C16."""
import types

from sdc11073.location import SdcLocation

FOREIGN = ['sdc.ctxt.loc:/a/b/c/d', 'sdc.ctxt.loc:', 'sdc.ctxt.loc:/', 'sdc.ctxt.loc:/x', 'sdc.ctxt.loc://[', 'http://[::1',
           'sdc.ctxt.loc:/sdc.ctxt.loc.detail/x?fac=%zz', 'sdc.ctxt.loc:/sdc.ctxt.loc.detail/x?fac', '', 'urn:uuid:1',
           'sdc.mds.pkp:1.2.3', 'SDC.CTXT.LOC:/sdc.ctxt.loc.detail/a?fac=a', 'sdc.ctxt.loc:/r/l?fac=a&fac=b&&=',
           'sdc.ctxt.loc:/sdc.ctxt.loc.detail/%2F%2F?bed=%00', '\udcff', 'sdc.ctxt.loc:/a/b?\x00',
           # well-formed location scopes of other vendors: unknown, duplicated, reserved and empty query keys
           'sdc.ctxt.loc:/sdc.ctxt.loc.detail/x?fac=f&poc=p&dept=cardiology', 'sdc.ctxt.loc:/sdc.ctxt.loc.detail/x?root=y&fac=f',
           'sdc.ctxt.loc:/sdc.ctxt.loc.detail/x?self=1', 'sdc.ctxt.loc:/sdc.ctxt.loc.detail/x?=1', 'sdc.ctxt.loc:/sdc.ctxt.loc.detail/x?&&==&fac&poc=&;;=',
           'sdc.ctxt.loc:/sdc.ctxt.loc.detail/x?cls=1&fac=a', 'sdc.ctxt.loc:/sdc.ctxt.loc.detail/x?FAC=a&Bed=1']


def filter_total(inputs):
    loc = SdcLocation(fac='a', poc='b', bed='c')
    for text in FOREIGN:
        svc = types.SimpleNamespace(scopes=types.SimpleNamespace(text=[text]))
        try:
            loc.filter_services_inside([svc, types.SimpleNamespace(scopes=None)])
        except Exception as ex:  # noqa: BLE001
            return {'violates': True, 'witness_key': f'foreign-scope-{type(ex).__name__.lower()}',
                    'detail': f'filter_services_inside raises {ex!r} for scope {text!r}', 'input': {'scope': text}}
    return {'violates': False, 'detail': f'{len(FOREIGN)} foreign scope strings tolerated'}
