"""Native replay oracles for C16."""
import types

from sdc11073.location import SdcLocation

FOREIGN = ['sdc.ctxt.loc:/a/b/c/d', 'sdc.ctxt.loc:', 'sdc.ctxt.loc:/', 'sdc.ctxt.loc:/x', 'sdc.ctxt.loc://[', 'http://[::1',
           'sdc.ctxt.loc:/sdc.ctxt.loc.detail/x?fac=%zz', 'sdc.ctxt.loc:/sdc.ctxt.loc.detail/x?fac', '', 'urn:uuid:1',
           'sdc.mds.pkp:1.2.3', 'SDC.CTXT.LOC:/sdc.ctxt.loc.detail/a?fac=a', 'sdc.ctxt.loc:/r/l?fac=a&fac=b&&=',
           'sdc.ctxt.loc:/sdc.ctxt.loc.detail/%2F%2F?bed=%00', '\udcff', 'sdc.ctxt.loc:/a/b?\x00',
           # well-formed location scopes of other vendors: unknown, duplicated, reserved and empty query keys
           'sdc.ctxt.loc:/sdc.ctxt.loc.detail/x?fac=f&poc=p&dept=cardiology', 'sdc.ctxt.loc:/sdc.ctxt.loc.detail/x?root=y&fac=f',
           'sdc.ctxt.loc:/sdc.ctxt.loc.detail/x?self=1', 'sdc.ctxt.loc:/sdc.ctxt.loc.detail/x?=1', 'sdc.ctxt.loc:/sdc.ctxt.loc.detail/x?&&==&fac&poc=&;;=',
           'sdc.ctxt.loc:/sdc.ctxt.loc.detail/x?cls=1&fac=a', 'sdc.ctxt.loc:/sdc.ctxt.loc.detail/x?FAC=a&Bed=1']


def _matches_spec():
    """_scope_string_matches(text) == (from_scope_string accepts text and the location is inside self), on a family of
    locations that includes long and non-ASCII element values."""
    import itertools
    vals = ['a', 'CU1', 'x' * 300, '\u6771\u4eac\u533b\u7642\u30bb\u30f3\u30bf\u30fc' * 3, 'a b/c?d#e%f&g=h', 'Z' * 1200]
    for combo in itertools.islice(itertools.product(vals, repeat=3), 0, 216):
        other = SdcLocation(fac=combo[0], poc=combo[1], bed=combo[2], bldng=combo[1][:5], flr=combo[2][:3], rm=combo[0][:7])
        text = other.scope_string
        for me in (SdcLocation(), SdcLocation(fac=combo[0]), other, SdcLocation(fac=combo[0] + '_', poc=combo[1])):
            try:
                parsed = SdcLocation.from_scope_string(text)
                want = parsed in me
            except Exception:  # noqa: BLE001
                want = False
            got = me._scope_string_matches(text)
            if got != want:
                return {'violates': True, 'witness_key': 'matcher-differs-from-parse-and-contains',
                        'detail': f'_scope_string_matches gives {got!r} for a scope of length {len(text)} whose location is '
                                  f'{"inside" if want else "not inside"} {me!r}: {text[:120]!r}...'}
    return None


def filter_total(inputs):
    if (inputs or {}).get('obligation', '').endswith('matches_iff_the_scope_denotes_a_location_inside'):
        r = _matches_spec()
        return r or {'violates': None, 'detail': 'no location of the replay family separates the matcher from its specification'}
    loc = SdcLocation(fac='a', poc='b', bed='c')
    for text in FOREIGN:
        svc = types.SimpleNamespace(scopes=types.SimpleNamespace(text=[text]))
        try:
            loc.filter_services_inside([svc, types.SimpleNamespace(scopes=None)])
        except Exception as ex:  # noqa: BLE001
            return {'violates': True, 'witness_key': f'foreign-scope-{type(ex).__name__.lower()}',
                    'detail': f'filter_services_inside raises {ex!r} for scope {text!r}', 'input': {'scope': text}}
    return {'violates': False, 'detail': f'{len(FOREIGN)} foreign scope strings tolerated'}
