"""C20 bounded stand-ins [B]: handle selection of GetMdState / GetContextStates and the localized text filter vs spec."""
import itertools
import os
import random
import types

from native.nativelib import Collector, tier
from native import mdibtools as mt
from sdc11073.provider.porttypes import contextserviceimpl, getserviceimpl, localizationservice
from sdc11073.xml_types import msg_types, pm_types

SEED = int(os.environ.get('VERIF_SEED', '0') or 0)


class _Capture:
    def __init__(self):
        self.response = None

    def mk_reply_soap_message(self, request_data, response, **kw):
        self.response = response
        return types.SimpleNamespace(serialize=lambda: b'')


def _fake_service(mdib, with_ctx):
    cap = _Capture()
    svc = types.SimpleNamespace(
        _sdc_definitions=mdib.sdc_definitions, _mdib=mdib, _data_model=mdib.data_model,
        _sdc_device=types.SimpleNamespace(contextstates_in_getmdib=with_ctx, msg_factory=cap, mdib=mdib),
        _logger=types.SimpleNamespace(debug=lambda *a, **k: None, info=lambda *a, **k: None))
    return svc, cap


def _prepare(path):
    mdib = mt.load(path)
    mdib.xtra.set_all_source_mds() if hasattr(mdib.xtra, 'set_all_source_mds') else None
    # a few context states on every context descriptor
    ctx_descr = [d for d in mdib.descriptions.objects if d.is_context_descriptor]
    with mdib.context_state_transaction() as mgr:
        for i, d in enumerate(ctx_descr[:4]):
            mgr.mk_context_state(d.Handle, f'cs_{i}_a', set_associated=True)
            mgr.mk_context_state(d.Handle, f'cs_{i}_b')
    return mdib


def spec_md_state(mdib, handles, with_ctx):
    if not handles:
        return list(mdib.states.objects) + (list(mdib.context_states.objects) if with_ctx else [])
    out = []
    for h in handles:
        sel = []
        if with_ctx:
            cs = [s for s in mdib.context_states.objects if s.Handle == h]
            if cs:
                sel = cs
            else:
                sel = [s for s in mdib.states.objects if s.DescriptorHandle == h] + \
                      [s for s in mdib.context_states.objects if s.DescriptorHandle == h]
        else:
            sel = [s for s in mdib.states.objects if s.DescriptorHandle == h]
        for s in sel:
            if not any(s is o for o in out):
                out.append(s)
    return out


def spec_context_states(mdib, handles):
    if not handles:
        return list(mdib.context_states.objects)
    out = []
    for h in handles:
        sel = [s for s in mdib.context_states.objects if s.Handle == h]
        if not sel:
            sel = [s for s in mdib.context_states.objects if s.DescriptorHandle == h]
        if not sel:
            d = [d for d in mdib.descriptions.objects if d.Handle == h]
            if d and d[0].NODETYPE.localname == 'MdsDescriptor':
                sel = [s for s in mdib.context_states.objects
                       if mdib.descriptions.handle.get_one(s.DescriptorHandle).source_mds == h]
        for s in sel:
            if not any(s is o for o in out):
                out.append(s)
    return out


def handle_selection():
    cases, bad = 0, []
    for path in (mt.MDIB_FILE, mt.MDIB_TWO_MDS):
        mdib = _prepare(path)
        mds = [d.Handle for d in mdib.descriptions.objects if d.NODETYPE.localname == 'MdsDescriptor']
        ctx_d = [d.Handle for d in mdib.descriptions.objects if d.is_context_descriptor][:2]
        metric = mt.metric_handles(mdib)[:2]
        pool = mds + ctx_d + metric + ['cs_0_a', 'cs_1_b', 'unknown_handle']
        lists = [[]] + [[h] for h in pool] + [list(p) for p in itertools.product(pool, repeat=2)]
        if tier() == 'thorough':
            rnd = random.Random(SEED)
            lists += [[rnd.choice(pool) for _ in range(3)] for _ in range(300)]
        for handles in lists:
            for with_ctx in (True, False):
                cases += 1
                svc, cap = _fake_service(mdib, with_ctx)
                orig = msg_types.GetMdState.from_node
                msg_types.GetMdState.from_node = staticmethod(lambda node: types.SimpleNamespace(HandleRef=list(handles)))
                try:
                    getserviceimpl.GetService._on_get_md_state(svc, types.SimpleNamespace(
                        message_data=types.SimpleNamespace(p_msg=types.SimpleNamespace(msg_node=None)), peer_name='x'))
                finally:
                    msg_types.GetMdState.from_node = orig
                got = list(cap.response.MdState.State)
                want = spec_md_state(mdib, handles, with_ctx)
                if len({id(x) for x in got}) != len(got):
                    bad.append({'key': 'get-md-state-duplicates', 'detail': f'GetMdState({handles}, ctx={with_ctx}) returns a state more than once'})
                elif {id(x) for x in got} != {id(x) for x in want}:
                    bad.append({'key': 'get-md-state-selection', 'detail': f'GetMdState({handles}, ctx={with_ctx}): {len(got)} states, rules select {len(want)}'})
                if cap.response.MdibVersion != mdib.mdib_version:
                    bad.append({'key': 'get-md-state-version', 'detail': 'wrong MdibVersion in response'})
            cases += 1
            svc, cap = _fake_service(mdib, True)
            orig = msg_types.GetContextStates.from_node
            msg_types.GetContextStates.from_node = staticmethod(lambda node: types.SimpleNamespace(HandleRef=list(handles)))
            try:
                contextserviceimpl.ContextService._on_get_context_states(svc, types.SimpleNamespace(
                    message_data=types.SimpleNamespace(p_msg=types.SimpleNamespace(msg_node=None)), peer_name='x'))
            finally:
                msg_types.GetContextStates.from_node = orig
            got = list(cap.response.ContextState)
            want = spec_context_states(mdib, handles)
            if len({id(x) for x in got}) != len(got):
                bad.append({'key': 'get-context-states-duplicates', 'detail': f'GetContextStates({handles}) returns a state more than once'})
            elif {id(x) for x in got} != {id(x) for x in want}:
                bad.append({'key': 'get-context-states-selection', 'detail': f'GetContextStates({handles}) on {os.path.basename(path)}: {len(got)} states, rules select {len(want)}'})
            if len(bad) > 4:
                return cases, bad
    return cases, bad


def text_filter():
    rnd = random.Random(SEED + 1)
    cases, bad = 0, []
    W = {'xs': 0, 's': 1, 'm': 2, 'l': 3, 'xl': 4, 'xxl': 5, None: 999}
    wv = lambda w: W[w.value if w is not None and hasattr(w, 'value') else w]   # noqa: E731
    TW = pm_types.LocalizedTextWidth
    refs, langs, widths = ['r1', 'r2', 'r3'], ['en', 'de', 'fr'], [None] + list(TW)
    for trial in range(60 if tier() == 'quick' else 600):
        texts = []
        for _ in range(rnd.randrange(0, 7)):
            texts.append(pm_types.LocalizedText('\n'.join('x' for _ in range(rnd.randrange(1, 4))), lang=rnd.choice(langs),
                                                ref=rnd.choice(refs), version=rnd.choice([0, 1, 2, 3]),
                                                text_width=rnd.choice(widths)))
        store = localizationservice.LocalizationStorage(texts)
        latest = max([t.Version for t in texts], default=None)
        opt = lambda seq, n: rnd.choice([None, []] + [rnd.sample(seq, k) for k in range(1, n + 1)])   # noqa: E731
        for _ in range(12):
            cases += 1
            req_refs, req_langs = opt(refs + ['zz'], 2), opt(langs, 2)
            req_ver = rnd.choice([None, 0, 0, 1, 2, 3, 9])
            req_w, req_l = opt(widths[1:], 2), opt([1, 2, 3], 2)
            try:
                got = store.filter_localized_texts(req_refs, req_ver, req_langs, req_w, req_l)
            except Exception as ex:  # noqa: BLE001
                bad.append({'key': f'text-filter-raises-{type(ex).__name__}', 'detail': f'filter({req_refs},{req_ver},{req_langs},{req_w},{req_l}) on {len(texts)} texts: {ex!r}'})
                continue
            ver = req_ver if req_ver is not None else latest
            for t in got:
                why = None
                if not any(t is s for s in texts):
                    why = 'not a stored text'
                elif req_refs and t.Ref not in req_refs:
                    why = f'Ref {t.Ref} not requested'
                elif req_langs and t.Lang not in req_langs:
                    why = f'Lang {t.Lang} not requested'
                elif t.Version != ver:
                    why = f'Version {t.Version}, expected {ver}'
                elif req_w and not any(wv(t.TextWidth) <= wv(w) for w in req_w):
                    why = f'TextWidth {t.TextWidth} wider than every requested width {req_w}'
                elif req_l and not any(len(t.text.split(chr(10))) <= n for n in req_l):
                    why = f'{len(t.text.split(chr(10)))} lines, more than every requested NumberOfLines {req_l}'
                if why:
                    bad.append({'key': 'text-filter-unsound', 'detail': f'filter({req_refs},{req_ver},{req_langs},{req_w},{req_l}) returned a text violating a constraint: {why}'})
                    break
            if not req_w and not req_l:
                want = [t for t in texts if (not req_refs or t.Ref in req_refs) and (not req_langs or t.Lang in req_langs) and t.Version == ver]
                if sorted(map(id, got)) != sorted(map(id, want)):
                    bad.append({'key': 'text-filter-incomplete', 'detail': f'filter({req_refs},{req_ver},{req_langs}) returned {len(got)} texts, {len(want)} satisfy the constraints'})
        cases += 1
        if sorted(store.get_supported_languages()) != sorted({str(t.Lang) for t in texts}):
            bad.append({'key': 'supported-languages', 'detail': f'{store.get_supported_languages()} vs stored {sorted({t.Lang for t in texts})}'})
        # the answer follows the store: texts added after a first query (new language, new version) are visible
        cases += 1
        extra = [pm_types.LocalizedText('neu', lang='it', ref=rnd.choice(refs), version=rnd.choice([0, 4])),
                 pm_types.LocalizedText('new', lang=rnd.choice(langs), ref='r9', version=5)]
        store.add(*extra)
        all_texts = texts + extra
        if sorted(store.get_supported_languages()) != sorted({str(t.Lang) for t in all_texts}):
            bad.append({'key': 'supported-languages-stale', 'detail': f'after add(): {sorted(store.get_supported_languages())} vs stored {sorted({str(t.Lang) for t in all_texts})}'})
        got = store.filter_localized_texts(['r9'], None, None, None, None)
        if [id(t) for t in got] != [id(extra[1])]:
            bad.append({'key': 'text-filter-stale', 'detail': f'after add(): filter(ref r9) returned {len(got)} texts, expected the added one'})
        if len(bad) > 4:
            break
    return cases, bad


if __name__ == '__main__':
    c = Collector()
    c.run('C20.handle_selection', 'B', handle_selection, bound='single- and two-MDS MDIB; all handle lists of length 0..2 over {MDS, context descriptors, metrics, context state handles, unknown}; GetMdState with/without context states; GetContextStates')
    c.run('C20.text_filter', 'B', text_filter, bound='seeded stores of 0-6 texts x 12 filter combinations (refs, version, languages, widths, lines)')
    c.emit()
