"""C10 bounded stand-ins [B]: sequences of set_location / context transactions / SetContextState on the real MDIB."""
import copy
import itertools
import os
import random
import sys
import types

from native.nativelib import Collector, tier
from native import mdibtools as mt
from sdc11073.location import SdcLocation
from sdc11073.xml_types import pm_types

SEED = int(os.environ.get('VERIF_SEED', '0') or 0)
sys.path.insert(0, os.environ.get('PYVC_REPO', '/repo'))


def assoc_invariant(mdib, versions_seen):
    """None if the association invariants of the property hold, else a description."""
    A = pm_types.ContextAssociation
    by_descr = {}
    handles = set()
    for s in mdib.context_states.objects:
        if s.Handle in handles:
            return f'context state handle {s.Handle} is not unique'
        handles.add(s.Handle)
        by_descr.setdefault(s.DescriptorHandle, []).append(s)
        if s.ContextAssociation == A.DISASSOCIATED and (s.UnbindingMdibVersion is None or s.BindingEndTime is None):
            return f'{s.Handle}: disassociated without unbinding version / end time'
        if s.ContextAssociation == A.ASSOCIATED and (s.BindingMdibVersion is None or s.BindingStartTime is None):
            return f'{s.Handle}: associated without binding version / start time'
        for v in (s.BindingMdibVersion, s.UnbindingMdibVersion):
            if v is not None and v > mdib.mdib_version:
                return f'{s.Handle}: version stamp {v} above current MdibVersion {mdib.mdib_version}'
    descr_handles = {d.Handle for d in mdib.descriptions.objects}
    if handles & descr_handles:
        return f'context state handle equals a descriptor handle: {handles & descr_handles}'
    for d, states in by_descr.items():
        n = sum(1 for s in states if s.ContextAssociation == A.ASSOCIATED)
        if n > 1:
            return f'descriptor {d} has {n} associated states'
    return None


def stamps(mdib):
    return {s.Handle: (s.ContextAssociation, s.BindingMdibVersion, s.UnbindingMdibVersion) for s in mdib.context_states.objects}


def check_stamps(before, after, committed_version):
    """binding / unbinding versions set by this commit equal the MdibVersion at which the change became visible."""
    A = pm_types.ContextAssociation
    for h, (assoc, bind, unbind) in after.items():
        old = before.get(h)
        if assoc == A.ASSOCIATED and (old is None or old[0] != A.ASSOCIATED) and bind != committed_version:
            return f'{h} became associated at MdibVersion {committed_version} but BindingMdibVersion is {bind}'
        if assoc == A.DISASSOCIATED and old is not None and old[0] == A.ASSOCIATED and unbind != committed_version:
            return f'{h} was disassociated at MdibVersion {committed_version} but UnbindingMdibVersion is {unbind}'
    return None


def location_sequences():
    rnd = random.Random(SEED)
    cases, bad = 0, []
    for seq in range(10 if tier() == 'quick' else 100):
        mdib = mt.load()
        loc_descr = [d for d in mdib.descriptions.objects if d.NODETYPE.localname == 'LocationContextDescriptor'][0]
        pat_descr = [d for d in mdib.descriptions.objects if d.NODETYPE.localname == 'PatientContextDescriptor'][0]
        for step in range(12):
            cases += 1
            before = stamps(mdib)
            op = rnd.choice(['set_location', 'set_location', 'new_patient_assoc', 'new_patient_plain', 'disassociate_patient', 'abort'])
            try:
                if op == 'set_location':
                    mdib.xtra.set_location(SdcLocation(fac=f'f{rnd.randrange(3)}', bed=f'b{rnd.randrange(3)}'))
                elif op == 'new_patient_assoc':
                    with mdib.context_state_transaction() as mgr:
                        mgr.disassociate_all(pat_descr.Handle)
                        mgr.mk_context_state(pat_descr.Handle, set_associated=True)
                elif op == 'new_patient_plain':
                    with mdib.context_state_transaction() as mgr:
                        mgr.mk_context_state(pat_descr.Handle, f'p{seq}_{step}')
                elif op == 'disassociate_patient':
                    with mdib.context_state_transaction() as mgr:
                        mgr.disassociate_all(pat_descr.Handle)
                elif op == 'abort':
                    snap = mt.snapshot(mdib)
                    try:
                        with mdib.context_state_transaction() as mgr:
                            mgr.disassociate_all(loc_descr.Handle)
                            mgr.mk_context_state(loc_descr.Handle, set_associated=True)
                            raise KeyboardInterrupt
                    except KeyboardInterrupt:
                        pass
                    if mt.snapshot(mdib) != snap:
                        bad.append({'key': 'aborted-context-change-visible', 'detail': 'aborted location change altered the MDIB'})
            except Exception as ex:  # noqa: BLE001
                bad.append({'key': f'context-op-raises:{op}', 'detail': f'{op}: {ex!r}'})
                break
            err = assoc_invariant(mdib, None) or check_stamps(before, stamps(mdib), mdib.mdib_version)
            if err:
                bad.append({'key': f'assoc-invariant:{op}', 'detail': f'after {op} (sequence {seq}, step {step}): {err}'})
                break
        if len(bad) > 3:
            break
    return cases, bad


def set_context_state_handler():
    """The tutorial SetContextState handler with proposals of 1-2 states."""
    from tutorial.productandroles.contextprovider import GenericContextProvider
    A = pm_types.ContextAssociation
    cases, bad = 0, []
    kinds = ['new_assoc', 'new_plain', 'update_keep', 'update_disassoc', 'update_assoc', 'bad_handle']
    combos = [(k,) for k in kinds] + list(itertools.product(kinds, kinds))
    for combo in combos:
        mdib = mt.load()
        pat_descr = [d for d in mdib.descriptions.objects if d.NODETYPE.localname == 'PatientContextDescriptor'][0]
        # two existing patients: one associated, one not
        with mdib.context_state_transaction() as mgr:
            mgr.mk_context_state(pat_descr.Handle, 'pat_a', set_associated=True)
            mgr.mk_context_state(pat_descr.Handle, 'pat_b')
        provider = GenericContextProvider(mdib, op_target_descr_types=[mdib.data_model.pm_names.PatientContextDescriptor])
        proposals = []
        for i, k in enumerate(combo):
            if k.startswith('new'):
                st = mdib.data_model.mk_state_container(pat_descr)
                st.Handle = pat_descr.Handle          # "new state" convention of the operation
                st.ContextAssociation = A.ASSOCIATED if k == 'new_assoc' else A.NO_ASSOCIATION
            elif k == 'bad_handle':
                st = mdib.data_model.mk_state_container(pat_descr)
                st.Handle = 'does_not_exist'
            else:
                src = 'pat_a' if k in ('update_keep', 'update_disassoc') else 'pat_b'
                st = copy.deepcopy(mdib.context_states.handle.get_one(src))
                if k == 'update_disassoc':
                    st.ContextAssociation = A.DISASSOCIATED
                elif k == 'update_assoc':
                    st.ContextAssociation = A.ASSOCIATED
                st.CoreData = pm_types.PatientDemographicsCoreData(given_name=f'g{i}')
            proposals.append(st)
        params = types.SimpleNamespace(operation_request=types.SimpleNamespace(argument=proposals),
                                       operation_instance=types.SimpleNamespace(operation_target_handle=pat_descr.Handle))
        cases += 1
        snap = mt.snapshot(mdib)
        before = stamps(mdib)
        try:
            provider._set_context_state(params)
            rejected = False
        except Exception:  # noqa: BLE001
            rejected = True
        if rejected:
            if mt.snapshot(mdib) != snap:
                bad.append({'key': 'rejected-set-context-state-changed-mdib', 'detail': f'{combo}: rejected proposal changed the MDIB: {mt.diff(snap, mt.snapshot(mdib))[:3]}'})
            continue
        err = assoc_invariant(mdib, None) or check_stamps(before, stamps(mdib), mdib.mdib_version)
        if err:
            bad.append({'key': f'set-context-state-breaks-invariant:{"+".join(combo)}', 'detail': f'proposal {combo}: {err}'})
    return cases, bad


if __name__ == '__main__':
    c = Collector()
    c.run('C10.location_sequences', 'B', location_sequences, bound='seeded sequences of 12 context operations (set_location, new/plain patients, disassociate, abort)')
    c.run('C10.set_context_state_handler', 'B', set_context_state_handler, bound='all proposals of 1 or 2 states out of 6 kinds (new associated / plain, update keep / disassociate / associate, unknown handle)')
    c.emit()
