"""C05: [F] XML targets of the properties of one class are pairwise distinct; [B] round trips of every container of the
bundled test MDIBs and of populated data-type instances, with the bundled XSD as oracle."""
import copy
import glob
import inspect
import os
import random
import re
import types
from decimal import Decimal

from lxml import etree
from native.nativelib import Collector, tier, xml_canon
from native import mdibtools as mt
from native.C12_native import all_classes, descriptors_of, _construct
from sdc11073.xml_types import pm_types, xml_structure as xs

SEED = int(os.environ.get('VERIF_SEED', '0') or 0)


def _target(d):
    if isinstance(d, xs._AttributeBase):
        return ('attr', str(d._attribute_name))
    name = getattr(d, '_sub_element_name', None)
    return ('elem', str(name))


def targets_distinct():
    cases, bad = 0, []
    for cls in all_classes():
        seen = {}
        own = [(n, getattr(cls, n)) for n, _ in _sorted_props(cls)]
        for name, d in own:
            cases += 1
            t = _target(d)
            if t == ('elem', 'None'):
                continue     # property describing the node itself (text / any content)
            if t in seen and seen[t] is not d:
                bad.append({'key': f'duplicate-xml-target:{cls.__name__}', 'detail': f'{cls.__name__}: {seen[t][0]} and {name} both map to {t}'})
            seen[t] = (name, d)
    return cases, bad


def _xsd_key(cls, model):
    nt = getattr(cls, 'NODETYPE', None)
    cands = []
    if nt is not None:
        q = etree.QName(nt)
        cands.append((q.namespace, q.localname))
    names = (cls.__name__, cls.__name__.removesuffix('Container'))
    for (ns, name) in model.types:
        if name in names:
            cands.append((ns, name))
    for c in cands:
        if c in model.types:
            return c
    return None


def schema_conformance():
    """[F] every class that corresponds to an XSD complexType: each property writes to an element / attribute the type
    declares, element properties are listed in the order of the schema sequence, every required attribute and element
    has a property."""
    import sdc11073
    from native.xsdmodel import XsdModel
    model = XsdModel(os.path.join(os.path.dirname(sdc11073.__file__), 'xsd'))
    cases, bad, mapped = 0, [], 0
    for cls in all_classes():
        key = _xsd_key(cls, model)
        if key is None:
            continue
        mapped += 1
        elems, attrs, flags = model.content(key)
        order = {}
        for i, (q, mn, mx, _n, _r) in enumerate(elems):
            order.setdefault(q, i)
        last, last_name = -1, None
        have_e, have_a = set(), set()
        whole_node = False
        for name, d in _sorted_props(cls):
            cases += 1
            kind, target = _target(d)
            if kind == 'attr':
                have_a.add(target)
                if target not in attrs and not flags['anyattr']:
                    bad.append({'key': f'attribute-not-in-schema:{cls.__name__}.{name}', 'detail': f'{cls.__name__}.{name} writes attribute {target}, which xsd type {key[1]} does not declare'})
                continue
            if target == 'None':
                whole_node = True     # the property holds the content of the node itself (text / arbitrary children)
                continue
            have_e.add(target)
            if target not in order:
                if not flags['any']:
                    bad.append({'key': f'element-not-in-schema:{cls.__name__}.{name}', 'detail': f'{cls.__name__}.{name} writes element {target}, which xsd type {key[1]} does not declare'})
                continue
            if order[target] < last:
                bad.append({'key': f'element-order:{cls.__name__}.{name}', 'detail': f'{cls.__name__}: {name} is listed after {last_name} but precedes it in the sequence of xsd type {key[1]}'})
            last, last_name = max(last, order[target]), name
        for q, mn, mx, _n, _r in elems:
            if mn >= 1 and q not in have_e and q != '##any' and not whole_node:
                bad.append({'key': f'required-element-without-property:{cls.__name__}:{q}', 'detail': f'{cls.__name__}: required element {q} of xsd type {key[1]} has no property'})
        for a, info in attrs.items():
            if info['use'] == 'required' and a not in have_a:
                bad.append({'key': f'required-attribute-without-property:{cls.__name__}:{a}', 'detail': f'{cls.__name__}: required attribute {a} of xsd type {key[1]} has no property'})
    if mapped < 100:
        bad.append({'key': 'too-few-classes-mapped', 'detail': f'only {mapped} classes could be mapped to an xsd complexType'})
    return cases, bad


INT_BASES = {'integer', 'int', 'long', 'short', 'byte', 'unsignedLong', 'unsignedInt', 'unsignedShort', 'unsignedByte',
             'nonNegativeInteger', 'positiveInteger', 'negativeInteger', 'nonPositiveInteger'}
DEC_BASES = {'decimal', 'double', 'float'} | INT_BASES


def _conv_category(conv):
    from sdc11073.xml_types import dataconverters as dc
    def isa(k):
        return conv is k or isinstance(conv, k) or (inspect.isclass(conv) and issubclass(conv, k))
    if isa(dc.EnumConverter):
        return 'enum'
    if isa(dc.BooleanConverter):
        return 'boolean'
    if isa(dc.TimestampConverter):
        return 'timestamp'
    if isa(dc.IntegerConverter):
        return 'integer'
    if isa(dc.DecimalConverter):
        return 'decimal'
    if isa(dc.DurationConverter):
        return 'duration'
    if isa(dc.StringConverter):
        return 'string'
    return None


def type_conformance():
    """[F] scalar properties against the simple type the schema declares for their attribute / element: converter
    category fits the xsd base type, enum members are schema enumeration values, implied values equal schema defaults."""
    import sdc11073
    from native.xsdmodel import XsdModel
    model = XsdModel(os.path.join(os.path.dirname(sdc11073.__file__), 'xsd'))
    cases, bad, n_enum, n_default = 0, [], 0, 0
    for cls in all_classes():
        key = _xsd_key(cls, model)
        if key is None:
            continue
        elems, attrs, flags = model.content(key)
        edecl = {}
        for q, mn, mx, node, root in elems:
            edecl.setdefault(q, (node, root))
        for name, d in _sorted_props(cls):
            kind, target = _target(d)
            if kind == 'attr':
                if target not in attrs:
                    continue
                info = model.decl_simple(attrs[target]['node'], attrs[target]['root'])
                xsd_default = attrs[target]['default']
            else:
                if target not in edecl:
                    continue
                info = model.decl_simple(*edecl[target])
                xsd_default = edecl[target][0].get('default')
            conv = getattr(d, '_converter', None)
            cat = _conv_category(conv) if conv is not None else None
            from sdc11073.xml_types import dataconverters as dc
            if isinstance(conv, dc.ListConverter):
                cat = None
            if info is None or cat is None:
                continue
            cases += 1
            where = f'{cls.__name__}.{name}'
            base = info['base']
            if cat == 'enum':
                n_enum += 1
                py_vals = {m.value for m in conv._klass}
                if info['enums'] and not info.get('open') and not py_vals <= info['enums']:
                    bad.append({'key': f'enum-value-not-in-schema:{where}', 'detail': f'{where}: enum {conv._klass.__name__} has values {sorted(map(str, py_vals - info["enums"]))} that the schema type does not allow ({sorted(info["enums"])})'})
            elif base is not None:
                ok = {'boolean': base == 'boolean', 'timestamp': base in INT_BASES, 'integer': base in INT_BASES,
                      'decimal': base in DEC_BASES, 'duration': base == 'duration',
                      'string': base not in DEC_BASES and base not in ('boolean', 'duration')}[cat]
                if not ok:
                    bad.append({'key': f'converter-type-mismatch:{where}', 'detail': f'{where}: {cat} converter on a member the schema types as xsd:{base}'})
            if xsd_default is None:
                decl = attrs[target]['node'] if kind == 'attr' else edecl[target][0]
                doc = ' '.join(' '.join(t.itertext()) for t in decl.findall('{http://www.w3.org/2001/XMLSchema}annotation/{http://www.w3.org/2001/XMLSchema}documentation'))
                m = re.search(r'implied value[^."]*SHALL be "([^"]+)"', doc)
                if m:
                    xsd_default = m.group(1)
            if xsd_default is not None:
                n_default += 1
                try:
                    want = conv.to_py(xsd_default)
                except Exception as ex:  # noqa: BLE001
                    bad.append({'key': f'schema-default-unreadable:{where}', 'detail': f'{where}: schema default {xsd_default!r}: {ex!r}'})
                    continue
                implied = d._implied_py_value if d._implied_py_value is not None else d._default_py_value
                if implied != want:
                    bad.append({'key': f'implied-value-differs-from-schema-default:{where}', 'detail': f'{where}: absent member reads as {implied!r}, the schema documents / declares {xsd_default!r}'})
    if n_default < 15:
        bad.append({'key': 'too-few-implied-values-compared', 'detail': f'{n_default}'})
    if n_enum < 30:
        bad.append({'key': 'too-few-enum-members-compared', 'detail': f'{n_enum}'})
    return cases, bad


def _sorted_props(cls):
    out = []
    for klass in reversed(inspect.getmro(cls)):
        for name in klass.__dict__.get('_props', ()):
            obj = getattr(klass, name, None)
            if obj is not None:
                out.append((name, obj))
    return out


def _canon_node(node):
    """Exclusive canonical form: namespace declarations that are not used do not count as content."""
    return xml_canon(node)


def mdib_roundtrip():
    cases, bad = 0, []
    files = sorted(glob.glob(os.path.join(mt.TESTS, '*.xml')))
    files = [f for f in files if 'mdib' in os.path.basename(f).lower() or 'MDIB' in os.path.basename(f)]
    for path in files:
        try:
            mdib = mt.load(path)
        except Exception as ex:  # noqa: BLE001
            continue
        nsh = mdib.data_model.ns_helper
        for container in list(mdib.descriptions.objects) + list(mdib.states.objects) + list(mdib.context_states.objects):
            cases += 1
            tag = etree.QName('urn:verif', 'c')
            n1 = container.mk_node(tag, nsh)
            if container.is_state_container:
                back = type(container)(container.descriptor_container)
            else:
                back = type(container)(container.Handle, container.parent_handle)
            back.update_from_node(n1)
            n2 = back.mk_node(tag, nsh)
            _strip_current_time(container, n1, n2)
            if _canon_node(n1) != _canon_node(n2):
                bad.append({'key': f'container-roundtrip:{type(container).__name__}',
                            'detail': f'{os.path.basename(path)} {type(container).__name__} {getattr(container, "Handle", "")}: write -> read -> write differs'})
            for name in _members_differ(container, back)[:1]:
                bad.append({'key': f'container-value:{type(container).__name__}.{name}',
                            'detail': f'{type(container).__name__}.{name}: {getattr(container, name)!r} -> xml -> {getattr(back, name)!r}'})
        # the whole MDIB must validate against the bundled schema
        cases += 1
        try:
            from sdc11073.schema_resolver import mk_schema_validator
            from sdc11073 import namespaces
            node, _ = mdib.reconstruct_mdib_with_context_states()
            validator = mk_schema_validator(mdib.sdc_definitions.data_model.ns_helper.prefix_enum, mdib.sdc_definitions.data_model.ns_helper)
            wrapper = etree.Element(etree.QName(node.tag).namespace and etree.QName(etree.QName(node.tag).namespace, 'GetMdibResponse'))
            wrapper.set('SequenceId', node.get('SequenceId'))
            wrapper.append(node)
            validator.assertValid(wrapper)
        except Exception as ex:  # noqa: BLE001
            if 'assertValid' in repr(ex) or 'DocumentInvalid' in type(ex).__name__:
                bad.append({'key': 'mdib-not-schema-valid', 'detail': f'{os.path.basename(path)}: {ex!r}'[:300]})
        if len(bad) > 5:
            break
    return cases, bad


def _strip_current_time(container, *nodes):
    """CurrentTimestampAttributeProperty writes the wall clock, not the stored value: not part of the round trip."""
    for name, d in container.sorted_container_properties():
        if isinstance(d, xs.CurrentTimestampAttributeProperty):
            for n in nodes:
                n.attrib.pop(d._attribute_name, None)


def _members_differ(inst, back):
    """Names of members that differ; a None in a mandatory position is outside the value space and skipped;
    float time stamps are compared on the millisecond grid of the schema (C18 decides the rounding itself)."""
    out = []
    for name, d in inst.sorted_container_properties():
        a, b = getattr(inst, name), getattr(back, name)
        if isinstance(d, xs.CurrentTimestampAttributeProperty):
            continue
        if a is None and not getattr(d, 'is_optional', True):
            continue
        if isinstance(a, float) and isinstance(b, float) and abs(a - b) <= 0.0005 + 1e-9 * abs(a):
            continue
        if not _eq(a, b):
            out.append(name)
    return out


def _eq(a, b):
    try:
        if a == b:
            return True
    except Exception:  # noqa: BLE001
        pass
    if isinstance(a, list) and isinstance(b, list):
        return len(a) == len(b) and all(_eq(x, y) for x, y in zip(a, b))
    if isinstance(a, etree._Element) and isinstance(b, etree._Element):
        return _canon_node(a) == _canon_node(b)
    if hasattr(a, 'sorted_container_properties') and hasattr(b, 'sorted_container_properties'):
        return type(a) is type(b) and not _members_differ(a, b)
    return a == b


def _sample(d, rnd):
    """A valid sample value for descriptor d, or None if unknown."""
    conv = d._converter
    from sdc11073.xml_types import dataconverters as dc
    if isinstance(conv, dc.EnumConverter):
        return rnd.choice(list(conv._klass))
    if isinstance(conv, dc.ListConverter) or isinstance(d, (xs._ElementListProperty, xs._AttributeListBase)):
        return None
    if conv is dc.StringConverter or isinstance(conv, dc.StringConverter) or conv.__class__ is dc.StringConverter:
        return rnd.choice(['a', 'Ärzte & <Co> "q"', ' lead', 'x' * 40, '日本'])
    for klass, gen in ((dc.BooleanConverter, lambda: rnd.choice([True, False])),
                       (dc.TimestampConverter, lambda: rnd.randrange(0, 2 ** 40) / 1000),
                       (dc.DecimalConverter, lambda: Decimal(rnd.randrange(-10 ** 6, 10 ** 6)) / Decimal(10 ** rnd.randrange(0, 5))),
                       (dc.UnsignedIntConverter, lambda: rnd.randrange(0, 2 ** 31)),
                       (dc.IntegerConverter, lambda: rnd.randrange(-1000, 1000)),
                       (dc.DurationConverter, lambda: rnd.randrange(0, 10 ** 6))):
        if conv is klass or isinstance(conv, klass) or (inspect.isclass(conv) and issubclass(conv, klass)):
            return gen()
    return None


def datatype_roundtrip():
    """Every data-type class: populate scalar optional members present/absent at random, round trip via as_etree_node."""
    rnd = random.Random(SEED)
    cases, bad = 0, []
    reps = 4 if tier() == 'quick' else 40
    for cls in all_classes():
        if not hasattr(cls, 'as_etree_node') or not hasattr(cls, 'from_node'):
            continue
        for _ in range(reps):
            inst = _construct(cls)
            if inst is None:
                break
            for name, d in _sorted_props(cls):
                if rnd.random() < 0.5:
                    v = _sample(d, rnd)
                    if v is not None:
                        try:
                            setattr(inst, name, v)
                        except Exception:  # noqa: BLE001
                            pass
            cases += 1
            try:
                n1 = inst.as_etree_node(etree.QName('urn:verif', 'x'), {'v': 'urn:verif'})
                back = cls.from_node(n1)
                n2 = back.as_etree_node(etree.QName('urn:verif', 'x'), {'v': 'urn:verif'})
            except Exception as ex:  # noqa: BLE001
                continue     # mandatory members missing etc.: not a round-trip question
            if _canon_node(n1) != _canon_node(n2):
                bad.append({'key': f'datatype-reserialise:{cls.__name__}', 'detail': f'{cls.__name__}: write -> read -> write differs: {etree.tostring(n1)[:400]} vs {etree.tostring(n2)[:400]}'})
            elif _members_differ(inst, back):
                diff = _members_differ(inst, back)
                bad.append({'key': f'datatype-value:{cls.__name__}.{diff[0] if diff else ""}', 'detail': f'{cls.__name__}: members {diff} differ after the round trip ({getattr(inst, diff[0])!r} -> {getattr(back, diff[0])!r})' if diff else cls.__name__})
            if len(bad) > 8:
                return cases, bad
    return cases, bad


def reread_overwrites():
    """[B] reading XML into an already populated object gives what reading it into a fresh object gives."""
    rnd = random.Random(SEED + 5)
    cases, bad = 0, []
    for cls in all_classes():
        if not hasattr(cls, 'as_etree_node') or not hasattr(cls, 'from_node') or not hasattr(cls, 'update_from_node'):
            continue
        populated, plain = _construct(cls), _construct(cls)
        if populated is None or plain is None:
            continue
        for name, d in _sorted_props(cls):
            v = _sample(d, rnd)
            try:
                if v is not None:
                    setattr(populated, name, v)
                elif isinstance(getattr(populated, name, None), list):
                    # list members: borrow an element type-correct value where one can be built
                    vc = getattr(d, 'value_class', None)
                    item = _construct(vc) if vc is not None else None
                    if item is not None:
                        getattr(populated, name).append(item)
                    elif isinstance(d, (xs.SubElementStringListProperty, xs._StringAttributeListBase)):
                        getattr(populated, name).append('stale')
            except Exception:  # noqa: BLE001
                pass
        try:
            node = plain.as_etree_node(etree.QName('urn:verif', 'x'), {'v': 'urn:verif'})
            fresh_obj = cls.from_node(node)
            populated.update_from_node(node)
        except Exception:  # noqa: BLE001
            continue
        cases += 1
        diff = _members_differ(fresh_obj, populated)
        if diff:
            bad.append({'key': f'stale-member-after-reread:{cls.__name__}.{diff[0]}', 'detail': f'{cls.__name__}.{diff[0]}: reading XML without it into a populated object keeps {getattr(populated, diff[0])!r}; a fresh object reads {getattr(fresh_obj, diff[0])!r}'})
        if len(bad) > 6:
            break
    return cases, bad


def module_constants():
    """[F] import-time constants the contracts assume."""
    bad = []
    if xs.MANDATORY_VALUE_CHECKING is not True:
        bad.append({'key': 'constant:MANDATORY_VALUE_CHECKING', 'detail': f'xml_structure.MANDATORY_VALUE_CHECKING is {xs.MANDATORY_VALUE_CHECKING!r}, the contracts assume True'})
    return 1, bad


def date_of_birth_time_zones():
    """The one container member whose XML text carries a time zone: exhaustive over the offsets xsd allows."""
    import datetime
    from sdc11073.namespaces import default_ns_helper as nsh
    from sdc11073.xml_types import isoduration, pm_types
    from sdc11073.xml_types import pm_qnames as pm
    ns_map = nsh.partial_map(nsh.PM, nsh.MSG, nsh.XSI, nsh.EXT)
    cases, bad = 0, []
    for off in range(-840, 841):
        tz = datetime.timezone(datetime.timedelta(minutes=off))
        for with_time in (False, True):
            cases += 1
            dob = isoduration.XsdDateInformation(1969, 7, 20, 20, 17, 40.5, tz_info=tz) if with_time \
                else isoduration.XsdDateInformation(1969, 7, 20, tz_info=tz)
            core = pm_types.PatientDemographicsCoreData(given_name='N')
            core.DateOfBirth = dob
            node = core.as_etree_node(pm.CoreData, ns_map)
            back = pm_types.PatientDemographicsCoreData.from_node(node)
            text = node.find(pm.DateOfBirth).text
            b = back.DateOfBirth
            if b is None or b.tz_info is None or b.tz_info.utcoffset(None) != tz.utcoffset(None) or b != dob:
                bad.append({'key': 'date-of-birth-time-zone', 'detail': f'DateOfBirth with offset {off} min written as {text!r} and read back as {b!s}'})
            elif etree.tostring(back.as_etree_node(pm.CoreData, ns_map)) != etree.tostring(node):
                bad.append({'key': 'date-of-birth-rewrite', 'detail': f'DateOfBirth with offset {off} min: second write differs from {text!r}'})
    return cases, bad


if __name__ == '__main__':
    c = Collector()
    from native import C18_native
    c.run('C05.decimal_values_are_written_as_xs_decimal', 'B', C18_native.decimals,
          bound='the decimal enumeration of C18 (boundary values, exponent forms with positive and negative exponents, seeded random digit strings) re-run here: what the containers write for a Decimal must be an xs:decimal lexical form (no exponent) that reads back as the same value')
    c.run('C05.date_of_birth_time_zones', 'B', date_of_birth_time_zones,
          bound='pm:DateOfBirth of PatientDemographicsCoreData with EVERY time-zone offset of the xsd value space (-14:00..+14:00, 1681 whole minutes) x date / dateTime: write, read, compare, re-write')
    c.run('C05.module_constants', 'F', module_constants, bound='MANDATORY_VALUE_CHECKING')
    c.run('C05.targets_distinct', 'F', targets_distinct, bound='every class with _props in 9 modules: attribute / element names of its properties are pairwise distinct')
    c.run('C05.schema_conformance', 'F', schema_conformance, bound='every class that maps to a complexType of the bundled XSDs (by NODETYPE or class name): property targets declared, element order = sequence order, required members covered')
    c.run('C05.type_conformance', 'F', type_conformance, bound='every scalar property of every class mapped to an xsd type: converter category vs xsd base type, enum members vs xsd enumerations, implied values vs xsd defaults')
    c.run('C05.mdib_roundtrip', 'B', mdib_roundtrip, bound='every descriptor / state / context state of the bundled test MDIB files: write, read, compare, re-write; schema validation of the whole MDIB')
    c.run('C05.reread_overwrites', 'B', reread_overwrites, bound='every constructible data-type class: a populated instance re-reads the XML of a default instance and must equal a fresh read')
    c.run('C05.datatype_roundtrip', 'B', datatype_roundtrip, bound='every constructible data-type class x seeded present/absent scalar members (strings incl. XML-special / non-ASCII, enums, decimals, timestamps)')
    c.emit()
