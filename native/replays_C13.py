"""Native replay oracles for C13."""
import io
import threading

from sdc11073.httpserver import httpreader


def _run_with_timeout(fn, timeout=2.0):
    res = {}

    def target():
        try:
            res['value'] = fn()
        except BaseException as ex:  # noqa: BLE001
            res['exc'] = ex
    t = threading.Thread(target=target, daemon=True)
    t.start()
    t.join(timeout)
    if t.is_alive():
        return 'hang', None
    if 'exc' in res:
        return 'exc', res['exc']
    return 'ok', res.get('value')


def dechunk(inputs):
    """_read_dechunk on the solver's stream bytes and on truncations of valid chunked bodies."""
    cands = []
    if 'stream_bytes' in inputs:
        cands.append(inputs['stream_bytes'].encode('latin-1', 'replace') if isinstance(inputs['stream_bytes'], str)
                     else bytes(inputs['stream_bytes']))
    valid = httpreader.mk_chunks(b'abcdefghij', 4)
    cands += [valid[:k] for k in range(len(valid))]
    cands += [b'', b'5\r\nab', b'-5\r\nabc\r\n0\r\n\r\n', b'zz\r\n', b'5;ext=1\r\nabcde\r\n0\r\n\r\n', b'1\r\naXX0\r\n\r\n',
              b'ffffffffffffffffffff\r\n', b'3\r\nabc']
    for data in cands:
        kind, val = _run_with_timeout(lambda d=data: httpreader.HTTPReader._read_dechunk(io.BytesIO(d)))
        if kind == 'hang':
            return {'violates': True, 'witness_key': 'dechunk-hang',
                    'detail': f'_read_dechunk does not terminate on {data!r}', 'input': {'stream': repr(data)}}
        if kind == 'exc' and not isinstance(val, httpreader.DechunkError):
            return {'violates': True, 'witness_key': f'dechunk-raises-{type(val).__name__}',
                    'detail': f'_read_dechunk({data!r}) raises {val!r} instead of DechunkError',
                    'input': {'stream': repr(data)}}
    return {'violates': False, 'detail': f'{len(cands)} streams: terminates, only DechunkError'}


def handler_escape(inputs):
    """Raw requests against the real http server: every one must get a status line, nothing may reach handle_error."""
    from native.httpharness import Server
    srv = Server()
    try:
        reqs = {
            'bad-content-length': b'POST /comp HTTP/1.1\r\nHost: x\r\nContent-Length: abc\r\n\r\nxx',
            'truncated-chunk': b'POST /comp HTTP/1.1\r\nHost: x\r\nTransfer-Encoding: chunked\r\n\r\n5\r\nab',
            'empty-chunked': b'POST /comp HTTP/1.1\r\nHost: x\r\nTransfer-Encoding: chunked\r\n\r\n',
            'negative-chunk': b'POST /comp HTTP/1.1\r\nHost: x\r\nTransfer-Encoding: chunked\r\n\r\n-1\r\n',
            'unsupported-coding': b'POST /comp HTTP/1.1\r\nHost: x\r\nContent-Length: 2\r\nContent-Encoding: br\r\n\r\nxx',
            'corrupt-gzip': b'POST /comp HTTP/1.1\r\nHost: x\r\nContent-Length: 2\r\nContent-Encoding: gzip\r\n\r\nxx',
            'post-unknown-path': b'POST /nope HTTP/1.1\r\nHost: x\r\nContent-Length: 0\r\n\r\n',
            'get-unknown-path': b'GET /nope HTTP/1.1\r\nHost: x\r\n\r\n',
            'get-malformed-path': b'GET //[ HTTP/1.1\r\nHost: x\r\n\r\n',
            'post-malformed-path': b'POST //[ HTTP/1.1\r\nHost: x\r\nContent-Length: 0\r\n\r\n',
            'get-ok': b'GET /comp HTTP/1.1\r\nHost: x\r\n\r\n',
            'post-ok': b'POST /comp HTTP/1.1\r\nHost: x\r\nContent-Length: 2\r\n\r\nxx',
        }
        # the peer's Accept-Encoding is parsed after the request was processed: sloppy / malformed values must not
        # make the answer disappear
        for i, ae in enumerate((b'gzip;q=high', b'gzip;q=', b'gzip;q', b'gzip;', b';', b'gzip;q=0x1', b'gzip;q=1.0.0',
                                b'gzip;level=9', b'gzip;q=1,0', b'br;q=1.O, gzip', b',,', b'*;q=', b'\xff\xfe')):
            reqs[f'post-accept-encoding-{i}'] = b'POST /comp HTTP/1.1\r\nHost: x\r\nAccept-Encoding: ' + ae + b'\r\nContent-Length: 2\r\n\r\nxx'
            reqs[f'get-accept-encoding-{i}'] = b'GET /comp HTTP/1.1\r\nHost: x\r\nAccept-Encoding: ' + ae + b'\r\n\r\n'
        for name, data in reqs.items():
            n_before = len(srv.escaped)
            ans = srv.raw(data)
            if len(srv.escaped) > n_before:
                return {'violates': True, 'witness_key': f'escape:{name}',
                        'detail': f'{name}: exception {srv.escaped[-1]} escaped into the server loop; answer={ans[:60]!r}',
                        'input': {'request': repr(data)}}
            if not ans.startswith(b'HTTP/1.'):
                return {'violates': True, 'witness_key': f'no-status:{name}',
                        'detail': f'{name}: no status line, got {ans[:60]!r}', 'input': {'request': repr(data)}}
        return {'violates': False, 'detail': f'{len(reqs)} raw requests all answered with a status line'}
    finally:
        srv.stop()


def provider_paths(inputs):
    """Raw POST requests with a valid SOAP body but unusual request paths (percent-encoded non-latin-1 characters, CR/LF,
    NUL, empty and surplus segments) against a real SdcProvider: each gets exactly one status line, no exception reaches
    the server loop, no client-chosen header line appears in the answer and an error answer carries a SOAP fault."""
    import socket
    from urllib.parse import urlsplit
    from native.loopback import Loop
    body = (b'<s12:Envelope xmlns:s12="http://www.w3.org/2003/05/soap-envelope" '
            b'xmlns:wsa="http://www.w3.org/2005/08/addressing" '
            b'xmlns:msg="http://standards.ieee.org/downloads/11073/11073-10207-2017/message"><s12:Header>'
            b'<wsa:Action>http://standards.ieee.org/downloads/11073/11073-20701-2018/GetService/GetMdib</wsa:Action>'
            b'<wsa:MessageID>urn:uuid:0f6f0d2a-0000-4000-8000-000000000001</wsa:MessageID></s12:Header>'
            b'<s12:Body><msg:GetMdib/></s12:Body></s12:Envelope>')
    with Loop(with_consumer_mdib=False, n_consumers=0) as lp:
        url = urlsplit(lp.provider.get_xaddrs()[0])
        base = url.path.rstrip('/')
        httpd = lp.provider._http_server.httpd
        escaped = []
        httpd.handle_error = lambda request, client_address: escaped.append(repr(__import__('sys').exc_info()[1]))
        tails = ['/Get\x01', '/\x1b[31m', '/Get\x7f', '/Get\x08x', '/Get', '/Get%E2%82%AC', '/Get%0D%0AX-Injected:%20yes', '/Get%00', '/%FF%FE', '/Nope', '/Get/extra', '//Get',
                 '/Get%2F..%2FGet', '/%E2%82%AC%0D%0A%0D%0A', '/Get?x=%E2%82%AC', '/Get%20%20', '/G%65t']
        for tail in tails:
            req = (f'POST {base}{tail} HTTP/1.1\r\nHost: x\r\nContent-Type: application/soap+xml\r\n'
                   f'Content-Length: {len(body)}\r\nConnection: close\r\n\r\n').encode('latin-1') + body
            n0 = len(escaped)
            s = socket.create_connection((url.hostname, url.port), timeout=5)
            try:
                s.sendall(req)
                data = b''
                while True:
                    try:
                        chunk = s.recv(65536)
                    except socket.timeout:
                        data += b'<<TIMEOUT>>'
                        break
                    if not chunk:
                        break
                    data += chunk
            finally:
                s.close()
            head, _, payload = data.partition(b'\r\n\r\n')
            lines = head.split(b'\r\n')
            if len(escaped) > n0:
                return {'violates': True, 'witness_key': 'escape:provider-path', 'input': {'path': base + tail},
                        'detail': f'POST {tail}: exception {escaped[-1]} escaped into the server loop; answer={data[:60]!r}'}
            if not data.startswith(b'HTTP/1.'):
                return {'violates': True, 'witness_key': 'no-status:provider-path', 'input': {'path': base + tail},
                        'detail': f'POST {tail}: no status line, got {data[:60]!r}'}
            import re as _re
            odd = [ln for ln in lines[1:] if not _re.match(rb'^[A-Za-z0-9-]+:', ln)]
            if odd or b'\n' in head.replace(b'\r\n', b''):
                return {'violates': True, 'witness_key': 'malformed-header-section:provider-path', 'input': {'path': base + tail},
                        'detail': f'POST {tail!r}: the header section of the answer is not a status line plus header lines '
                                  f'(e.g. a multi-line reason phrase): {head[:160]!r}'}
            if any(ln.lower().startswith(b'x-injected') for ln in lines[1:]):
                return {'violates': True, 'witness_key': 'header-injection:provider-path', 'input': {'path': base + tail},
                        'detail': f'POST {tail}: the answer contains a header line chosen by the client: {lines[:4]!r}'}
            code = lines[0].split(b' ')[1] if len(lines[0].split(b' ')) > 1 else b'?'
            if code != b'200' and b'Fault' not in payload:
                return {'violates': True, 'witness_key': 'error-without-fault:provider-path', 'input': {'path': base + tail},
                        'detail': f'POST {tail}: status {code.decode()} without a SOAP fault in the body ({len(payload)} bytes)'}
        return {'violates': False, 'detail': f'{len(tails)} request paths all answered properly'}


def open_connection_framing(inputs):
    """POST requests whose length framing is malformed or absent, sent over a connection the client KEEPS OPEN (as real
    HTTP clients do): the server must answer with a status line within the time limit - a read to end-of-stream would
    block the handler thread for as long as the peer stays connected."""
    import socket
    import time
    from urllib.parse import urlsplit
    from native.loopback import Loop
    body = b'<x/>'
    framings = {'negative-content-length': b'Content-Length: -1\r\n', 'large-negative-content-length': b'Content-Length: -2147483649\r\n',
                'negative-zero-content-length': b'Content-Length: -0\r\n', 'no-content-length': b'',
                'empty-content-length': b'Content-Length: \r\n', 'content-length-with-sign': b'Content-Length: +4\r\n',
                'two-content-lengths': b'Content-Length: 4\r\nContent-Length: -1\r\n',
                'negative-content-length-gzip': b'Content-Encoding: gzip\r\nContent-Length: -1\r\n'}
    only = (inputs or {}).get('framing')
    with Loop(with_consumer_mdib=False, n_consumers=0) as lp:
        url = urlsplit(lp.provider.get_xaddrs()[0])
        for name, hdr in framings.items():
            if only and name != only:
                continue
            req = (b'POST ' + url.path.encode() + b'/Get HTTP/1.1\r\nHost: x\r\nContent-Type: application/soap+xml\r\n'
                   + hdr + b'\r\n' + body)
            s = socket.create_connection((url.hostname, url.port), timeout=4)
            t0 = time.time()
            try:
                s.sendall(req)
                try:
                    data = s.recv(4096)
                except socket.timeout:
                    return {'violates': True, 'witness_key': f'no-answer-while-connection-open:{name}', 'input': {'framing': name},
                            'detail': f'POST with {hdr!r}: no status line within {time.time() - t0:.1f} s while the client '
                                      f'keeps the connection open (the handler reads to end-of-stream)'}
            finally:
                s.close()
            if not data.startswith(b'HTTP/1.'):
                return {'violates': True, 'witness_key': f'no-status:{name}', 'input': {'framing': name},
                        'detail': f'POST with {hdr!r}: answer without status line: {data[:60]!r}'}
    return {'violates': False, 'detail': f'{len(framings)} framings answered while the connection stayed open'}


def fault_text(inputs):
    """Fault.add_reason_text for EVERY Unicode code point (the function acts per character): the stored text can be put
    into an XML element, legal characters are kept."""
    from lxml import etree
    from sdc11073.pysoap.soapenvelope import Fault
    bad = None
    n = 0
    for start in range(0, 0x110000, 2048):
        chunk = ''.join(chr(c) for c in range(start, min(start + 2048, 0x110000)))
        f = Fault()
        f.add_reason_text('x' + chunk)
        stored = f.Reason.Text[-1].text
        n += len(chunk)
        try:
            etree.Element('a').text = stored
        except ValueError as ex:
            # find the character
            for ch in chunk:
                g = Fault()
                g.add_reason_text(ch)
                try:
                    etree.Element('a').text = g.Reason.Text[-1].text
                except ValueError:
                    bad = (ch, repr(ex))
                    break
            break
        if len(stored) != len(chunk) + 1:
            return {'violates': True, 'witness_key': 'fault-text-length', 'detail': f'code points {start:#x}..: text length changed'}
        for a, b2 in zip(chunk, stored[1:]):
            legal = a in '\t\n\r' or 0x20 <= ord(a) <= 0xd7ff or 0xe000 <= ord(a) <= 0xfffd or ord(a) >= 0x10000
            if legal and a != b2:
                return {'violates': True, 'witness_key': 'fault-text-changed', 'detail': f'legal character U+{ord(a):04X} was replaced'}
    if bad:
        return {'violates': True, 'witness_key': 'fault-text-not-serializable', 'input': {'char': ord(bad[0])},
                'detail': f'a fault whose reason quotes U+{ord(bad[0]):04X} cannot be serialized: {bad[1]}'}
    return {'violates': False, 'detail': f'{n} code points'}


def schema_invalid_bodies(inputs):
    """Schema-invalid requests whose offending element name / attribute value contains non-latin-1 characters or a line
    feed, posted to a real provider: each gets exactly one well-formed status line + header section, status 4xx/5xx and
    a SOAP fault (error texts that quote message content must not end up in the status line)."""
    import re
    import socket
    from urllib.parse import urlsplit
    from native.loopback import Loop
    env = ('<s12:Envelope xmlns:s12="http://www.w3.org/2003/05/soap-envelope" xmlns:wsa="http://www.w3.org/2005/08/addressing" '
           'xmlns:msg="http://standards.ieee.org/downloads/11073/11073-10207-2017/message"><s12:Header>'
           '<wsa:Action>http://standards.ieee.org/downloads/11073/11073-20701-2018/GetService/GetMdState</wsa:Action>'
           '<wsa:MessageID>urn:uuid:0f6f0d2a-0000-4000-8000-000000000002</wsa:MessageID></s12:Header>'
           '<s12:Body>%s</s12:Body></s12:Envelope>')
    bodies = {'ascii-control': '<msg:GetMdState><msg:Bogus>x</msg:Bogus></msg:GetMdState>',
              'non-latin-1-value': '<msg:GetMdState Bogus="€東京"/>',
              'non-latin-1-element-name': '<msg:GetMdState><msg:東京/></msg:GetMdState>',
              'non-latin-1-text': '<msg:GetMdState><msg:HandleRef>€</msg:HandleRef><msg:Bogus>€</msg:Bogus></msg:GetMdState>',
              'line-feed-in-value': '<msg:GetMdState Bogus="a&#10;X-Injected: yes"/>',
              'line-feed-in-text': '<msg:GetMdState><msg:Bogus>a\nX-Injected: yes\n\nbody</msg:Bogus></msg:GetMdState>'}
    only = (inputs or {}).get('body')
    with Loop(with_consumer_mdib=False, n_consumers=0) as lp:
        url = urlsplit(lp.provider.get_xaddrs()[0])
        httpd = lp.provider._http_server.httpd
        escaped = []
        httpd.handle_error = lambda request, client_address: escaped.append(repr(__import__('sys').exc_info()[1]))
        for name, b in bodies.items():
            if only and name != only:
                continue
            body = (env % b).encode('utf-8')
            req = (f'POST {url.path}/Get HTTP/1.1\r\nHost: x\r\nContent-Type: application/soap+xml; charset=utf-8\r\n'
                   f'Content-Length: {len(body)}\r\nConnection: close\r\n\r\n').encode('latin-1') + body
            n0 = len(escaped)
            s = socket.create_connection((url.hostname, url.port), timeout=5)
            data = b''
            try:
                s.sendall(req)
                while True:
                    try:
                        chunk = s.recv(65536)
                    except socket.timeout:
                        break
                    if not chunk:
                        break
                    data += chunk
            finally:
                s.close()
            head, _, payload = data.partition(b'\r\n\r\n')
            lines = head.split(b'\r\n')
            if len(escaped) > n0 or not data.startswith(b'HTTP/1.'):
                return {'violates': True, 'witness_key': f'no-status:schema-invalid:{name}', 'input': {'body': name},
                        'detail': f'schema-invalid request ({name}): {"exception " + escaped[-1] + " escaped into the server loop; " if len(escaped) > n0 else ""}answer={data[:60]!r}'}
            odd = [ln for ln in lines[1:] if not re.match(rb'^[A-Za-z0-9-]+:', ln)]
            if odd or b'\n' in head.replace(b'\r\n', b'') or any(ln.lower().startswith(b'x-injected') for ln in lines[1:]):
                return {'violates': True, 'witness_key': f'malformed-header-section:schema-invalid:{name}', 'input': {'body': name},
                        'detail': f'schema-invalid request ({name}): header section is not a status line plus header lines: {head[:200]!r}'}
            code = lines[0].split(b' ')[1] if len(lines[0].split(b' ')) > 1 else b'?'
            if code == b'200' or b'Fault' not in payload:
                return {'violates': True, 'witness_key': f'no-fault:schema-invalid:{name}', 'input': {'body': name},
                        'detail': f'schema-invalid request ({name}): status {code.decode()} and {"no " if b"Fault" not in payload else ""}SOAP fault'}
    return {'violates': False, 'detail': f'{len(bodies)} schema-invalid bodies answered with a fault'}
