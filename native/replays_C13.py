"""Native replay oracles for C13."""
import io
import threading

from sdc11073.httpserver import httpreader


def _run_with_timeout(fn, timeout=2.0):
    res = {}

    def target():
        try:
            res['value'] = fn()
        except BaseException as ex:  # noqa: BLE001
            res['exc'] = ex
    t = threading.Thread(target=target, daemon=True)
    t.start()
    t.join(timeout)
    if t.is_alive():
        return 'hang', None
    if 'exc' in res:
        return 'exc', res['exc']
    return 'ok', res.get('value')


def dechunk(inputs):
    """_read_dechunk on the solver's stream bytes and on truncations of valid chunked bodies."""
    cands = []
    if 'stream_bytes' in inputs:
        cands.append(inputs['stream_bytes'].encode('latin-1', 'replace') if isinstance(inputs['stream_bytes'], str)
                     else bytes(inputs['stream_bytes']))
    valid = httpreader.mk_chunks(b'abcdefghij', 4)
    cands += [valid[:k] for k in range(len(valid))]
    cands += [b'', b'5\r\nab', b'-5\r\nabc\r\n0\r\n\r\n', b'zz\r\n', b'5;ext=1\r\nabcde\r\n0\r\n\r\n', b'1\r\naXX0\r\n\r\n',
              b'ffffffffffffffffffff\r\n', b'3\r\nabc']
    for data in cands:
        kind, val = _run_with_timeout(lambda d=data: httpreader.HTTPReader._read_dechunk(io.BytesIO(d)))
        if kind == 'hang':
            return {'violates': True, 'witness_key': 'dechunk-hang',
                    'detail': f'_read_dechunk does not terminate on {data!r}', 'input': {'stream': repr(data)}}
        if kind == 'exc' and not isinstance(val, httpreader.DechunkError):
            return {'violates': True, 'witness_key': f'dechunk-raises-{type(val).__name__}',
                    'detail': f'_read_dechunk({data!r}) raises {val!r} instead of DechunkError',
                    'input': {'stream': repr(data)}}
    return {'violates': False, 'detail': f'{len(cands)} streams: terminates, only DechunkError'}


def handler_escape(inputs):
    """Raw requests against the real http server: every one must get a status line, nothing may reach handle_error."""
    from native.httpharness import Server
    srv = Server()
    try:
        reqs = {
            'bad-content-length': b'POST /comp HTTP/1.1\r\nHost: x\r\nContent-Length: abc\r\n\r\nxx',
            'truncated-chunk': b'POST /comp HTTP/1.1\r\nHost: x\r\nTransfer-Encoding: chunked\r\n\r\n5\r\nab',
            'empty-chunked': b'POST /comp HTTP/1.1\r\nHost: x\r\nTransfer-Encoding: chunked\r\n\r\n',
            'negative-chunk': b'POST /comp HTTP/1.1\r\nHost: x\r\nTransfer-Encoding: chunked\r\n\r\n-1\r\n',
            'unsupported-coding': b'POST /comp HTTP/1.1\r\nHost: x\r\nContent-Length: 2\r\nContent-Encoding: br\r\n\r\nxx',
            'corrupt-gzip': b'POST /comp HTTP/1.1\r\nHost: x\r\nContent-Length: 2\r\nContent-Encoding: gzip\r\n\r\nxx',
            'post-unknown-path': b'POST /nope HTTP/1.1\r\nHost: x\r\nContent-Length: 0\r\n\r\n',
            'get-unknown-path': b'GET /nope HTTP/1.1\r\nHost: x\r\n\r\n',
            'get-malformed-path': b'GET //[ HTTP/1.1\r\nHost: x\r\n\r\n',
            'post-malformed-path': b'POST //[ HTTP/1.1\r\nHost: x\r\nContent-Length: 0\r\n\r\n',
            'get-ok': b'GET /comp HTTP/1.1\r\nHost: x\r\n\r\n',
            'post-ok': b'POST /comp HTTP/1.1\r\nHost: x\r\nContent-Length: 2\r\n\r\nxx',
        }
        # the peer's Accept-Encoding is parsed after the request was processed: sloppy / malformed values must not
        # make the answer disappear
        for i, ae in enumerate((b'gzip;q=high', b'gzip;q=', b'gzip;q', b'gzip;', b';', b'gzip;q=0x1', b'gzip;q=1.0.0',
                                b'gzip;level=9', b'gzip;q=1,0', b'br;q=1.O, gzip', b',,', b'*;q=', b'\xff\xfe')):
            reqs[f'post-accept-encoding-{i}'] = b'POST /comp HTTP/1.1\r\nHost: x\r\nAccept-Encoding: ' + ae + b'\r\nContent-Length: 2\r\n\r\nxx'
            reqs[f'get-accept-encoding-{i}'] = b'GET /comp HTTP/1.1\r\nHost: x\r\nAccept-Encoding: ' + ae + b'\r\n\r\n'
        for name, data in reqs.items():
            n_before = len(srv.escaped)
            ans = srv.raw(data)
            if len(srv.escaped) > n_before:
                return {'violates': True, 'witness_key': f'escape:{name}',
                        'detail': f'{name}: exception {srv.escaped[-1]} escaped into the server loop; answer={ans[:60]!r}',
                        'input': {'request': repr(data)}}
            if not ans.startswith(b'HTTP/1.'):
                return {'violates': True, 'witness_key': f'no-status:{name}',
                        'detail': f'{name}: no status line, got {ans[:60]!r}', 'input': {'request': repr(data)}}
        return {'violates': False, 'detail': f'{len(reqs)} raw requests all answered with a status line'}
    finally:
        srv.stop()
