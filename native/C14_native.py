"""C14: [F] import-time constants assumed by the contracts; [B] match_scope vs an independent reading of the rules."""
import itertools
import os
import random
from urllib.parse import unquote, urlsplit

from native.nativelib import Collector, tier
from sdc11073.wsdiscovery import wsdimpl

SEED = int(os.environ.get('VERIF_SEED', '0') or 0)
NS_D = 'http://docs.oasis-open.org/ws-dd/ns/discovery/2009/01'


def constants():
    bad = []
    if wsdimpl.NS_D != NS_D:
        bad.append({'key': 'NS_D', 'detail': f'wsdimpl.NS_D == {wsdimpl.NS_D!r}'})
    want = {'ldap': NS_D + '/ldap', 'uri': NS_D + '/rfc3986', 'uuid': NS_D + '/uuid', 'strcmp': NS_D + '/strcmp0'}
    for k, v in want.items():
        if getattr(wsdimpl.MatchBy, k).value != v or getattr(wsdimpl.MatchBy, k) != v:
            bad.append({'key': f'MatchBy.{k}', 'detail': f'{getattr(wsdimpl.MatchBy, k)!r}'})
    return 5, bad


def ref_match(a, b, rule):
    if rule in (None, '', NS_D + '/rfc3986', NS_D + '/ldap', NS_D + '/uuid'):
        sa, sb = urlsplit(a), urlsplit(b)
        if sa.scheme.lower() != sb.scheme.lower() or sa.netloc.lower() != sb.netloc.lower():
            return False
        pa = [unquote(x) for x in sa.path.split('/')]
        pb = [unquote(x) for x in sb.path.split('/')]
        return len(pa) <= len(pb) and pb[:len(pa)] == pa
    if rule == NS_D + '/strcmp0':
        return a == b
    return False


def scopes():
    rnd = random.Random(SEED)
    atoms = ['http://A.b/c', 'HTTP://a.B/c', 'http://a.b/c/', 'http://a.b/c/d', 'http://a.b/c%2Fd', 'http://a.b/c%2fd/e',
             'http://a.b//c', 'http://a.b', 'http://a.b/', 'sdc.ctxt.loc:/x/y?fac=1', 'sdc.ctxt.loc:/x/y%2Fz', 'urn:uuid:1',
             'urn:UUID:1', 'http://a.b/c d', 'http://a.b/c%20d', 'http://a.b/C', 'http://a.b:80/c', 'https://a.b/c', '', 'c/d']
    rules = [None, '', NS_D + '/rfc3986', NS_D + '/strcmp0', NS_D + '/ldap', NS_D + '/uuid', 'http://unknown/rule',
             wsdimpl.MatchBy.uri, wsdimpl.MatchBy.strcmp]
    cases, bad = 0, []
    for a, b, r in itertools.product(atoms, atoms, rules):
        cases += 1
        got = wsdimpl.match_scope(a, b, r)
        want = ref_match(a, b, r.value if isinstance(r, wsdimpl.MatchBy) else r)
        if got != want:
            bad.append({'key': 'match-scope-differs', 'detail': f'match_scope({a!r}, {b!r}, {r!r}) = {got}, rules give {want}'})
            if len(bad) > 3:
                break
    return cases, bad


if __name__ == '__main__':
    c = Collector()
    c.run('C14.constants', 'F', constants, bound='5 import-time constants used by the contracts')
    c.run('C14.match_scope_examples', 'B', scopes, bound='20 x 20 scope pairs x 9 rules vs independent reference')
    c.emit()
