"""C16 bounded stand-ins [B]: scope round trips over reserved / non-ASCII characters, published-scope chain."""
import itertools
import os
import random
import types

from native.nativelib import Collector, tier
from native import replays_C16
from sdc11073.location import SdcLocation, UrlSchemeError

SEED = int(os.environ.get('VERIF_SEED', '0') or 0)
ELEMS = ('fac', 'bldng', 'flr', 'poc', 'rm', 'bed')
ALPHABET = ['a', 'Z', '0', ' ', '/', '?', '#', '&', '=', '%', '+', ';', ':', '@', '%2F', 'ä', '日本', ' ', "'", '"',
            '<', '>', '\\', '.', '..', '~', '\t', '𝄞']


def values(rnd, n):
    out = list(ALPHABET)
    for _ in range(n):
        out.append(''.join(rnd.choice(ALPHABET) for _ in range(rnd.randrange(1, 6))))
    return out


def roundtrip():
    rnd = random.Random(SEED)
    vals = values(rnd, 40 if tier() == 'quick' else 400)
    cases, bad = 0, []
    # every present/absent combination, each with characteristic values
    for mask in itertools.product((False, True), repeat=6):
        for trial in range(6 if tier() == 'quick' else 40):
            kw = {e: rnd.choice(vals) for e, m in zip(ELEMS, mask) if m}
            loc = SdcLocation(**kw)
            cases += 1
            try:
                back = SdcLocation.from_scope_string(loc.scope_string)
            except Exception as ex:  # noqa: BLE001
                bad.append({'key': 'roundtrip-raises', 'detail': f'{kw!r}: {ex!r}'})
                continue
            if back != loc:
                bad.append({'key': 'roundtrip-differs', 'detail': f'{kw!r} -> {loc.scope_string!r} -> {back.__dict__!r}'})
            # containment: inside itself and every generalisation, outside a differing one
            for drop in ELEMS:
                gen = SdcLocation(**{k: v for k, v in kw.items() if k != drop})
                if back not in gen:
                    bad.append({'key': 'not-in-generalisation', 'detail': f'{kw!r} not inside generalisation without {drop}'})
            for e in kw:
                other = SdcLocation(**dict(kw, **{e: kw[e] + 'x'}))
                if back in other:
                    bad.append({'key': 'in-differing-location', 'detail': f'{kw!r} inside location differing in {e}'})
            if len(bad) > 5:
                return cases, bad
    return cases, bad


def parse_is_stateless():
    """Parsing a scope string yields a location that depends on the string only: changing a parsed location (they are
    mutable) must not influence what the next parse / the next filter run sees."""
    cases, bad = 0, []
    loc = SdcLocation(fac='f1', poc='p1', bed='bed1')
    scope = loc.scope_string
    for _ in range(3):
        cases += 1
        a = SdcLocation.from_scope_string(scope)
        if a != loc:
            bad.append({'key': 'parse-depends-on-history', 'detail': f'from_scope_string({scope!r}) gives {a!r} after an earlier result was modified'})
            break
        a.bed = 'bed2'          # e.g. "look at the neighbour bed"
        a.fac = None
        svc = types.SimpleNamespace(scopes=types.SimpleNamespace(text=[scope]))
        inside = SdcLocation(fac='f1', poc='p1', bed='bed1').filter_services_inside([svc])
        other = SdcLocation(fac='f1', poc='p1', bed='bed2').filter_services_inside([svc])
        if len(inside) != 1 or len(other) != 0:
            bad.append({'key': 'filter-depends-on-history', 'detail': f'service publishing {scope!r}: inside bed1 -> {len(inside)}, inside bed2 -> {len(other)} after a parsed location was modified'})
            break
    return cases, bad


def raises_only():
    cases, bad = 0, []
    rnd = random.Random(SEED + 3)
    texts = list(replays_C16.FOREIGN)
    for _ in range(300 if tier() == 'quick' else 5000):
        texts.append(rnd.choice(['sdc.ctxt.loc:', 'http:', '', 'sdc.ctxt.loc:/', '//']) +
                     ''.join(rnd.choice(['/', 'a', '?', '=', '&', '%', '[', ']', ':', '#', '%2', 'fac', 'ä']) for _ in range(rnd.randrange(0, 12))))
    for t in texts:
        cases += 1
        try:
            SdcLocation.from_scope_string(t)
        except (UrlSchemeError, ValueError):
            pass
        except Exception as ex:  # noqa: BLE001
            bad.append({'key': f'from-scope-raises-{type(ex).__name__}', 'detail': f'from_scope_string({t!r}) raises {ex!r}'})
    return cases, bad


def published_chain():
    """location state -> mk_scopes query -> scope string: recognised inside the location and its generalisations."""
    from sdc11073.mdib import statecontainers
    from sdc11073.provider import scopesfactory
    from sdc11073.xml_types import pm_types
    rnd = random.Random(SEED + 5)
    vals = values(rnd, 30)
    cases, bad = 0, []
    for mask in itertools.product((False, True), repeat=6):
        if not any(mask):
            continue
        for trial in range(3 if tier() == 'quick' else 20):
            kw = {e: rnd.choice(vals) for e, m in zip(ELEMS, mask) if m}
            loc = SdcLocation(**kw)
            descr = types.SimpleNamespace(Handle='lc', DescriptorVersion=0)
            state = statecontainers.LocationContextStateContainer(descr)
            state.update_from_sdc_location(loc)
            query = scopesfactory._query_from_location_state(state)
            ident = state.Identification[0]
            scope = f'sdc.ctxt.loc:/{__import__("urllib.parse").parse.quote(ident.Root, safe="")}/{__import__("urllib.parse").parse.quote(ident.Extension, safe="")}{("?" + query) if query else ""}'
            cases += 1
            try:
                parsed = SdcLocation.from_scope_string(scope)
            except Exception as ex:  # noqa: BLE001
                bad.append({'key': 'published-scope-unparsable', 'detail': f'{kw!r}: {scope!r}: {ex!r}'})
                continue
            if parsed not in loc:
                bad.append({'key': 'published-scope-not-inside', 'detail': f'{kw!r}: published {scope!r} not inside its own location'})
            for drop in kw:
                gen = SdcLocation(**{k: v for k, v in kw.items() if k != drop})
                if parsed not in gen:
                    bad.append({'key': 'published-scope-not-in-generalisation', 'detail': f'{kw!r} without {drop}'})
                diff = SdcLocation(**dict(kw, **{drop: kw[drop] + '!'}))
                if parsed in diff:
                    bad.append({'key': 'published-scope-in-differing', 'detail': f'{kw!r} vs differing {drop}'})
            if len(bad) > 5:
                return cases, bad
    return cases, bad


def filter_foreign():
    r = replays_C16.filter_total({})
    return len(replays_C16.FOREIGN), ([{'key': r['witness_key'], 'detail': r['detail']}] if r['violates'] else [])


def urllib_axioms():
    """The contracts of urllib.parse that C16.scope_round_trip assumes, tried on the real library over reserved,
    non-ASCII and whitespace-laden strings (a bounded validation of assumptions, nothing more)."""
    import itertools
    from urllib.parse import ParseResult, parse_qsl, quote, unquote, urlencode, urlsplit, urlunparse
    atoms = ['', 'a', 'A b', '/', '//', '?', '#', '&', '=', '%', '%2F', '+', ' ', ';', ':', '@', 'ä', '€', '日本', '\\', '"', "'", '\t',
             'x/y?z#w', 'a&b=c', '\u00a0', '[', ']', '~', '.', '..']
    strings = atoms + [a + b for a, b in itertools.product(atoms[:14], atoms[:14])]
    cases, bad = 0, []
    for s in strings:
        cases += 1
        q0, q1 = quote(s, safe=''), quote(s)
        if unquote(q0) != s or unquote(q1) != s:
            bad.append({'key': 'urllib-axiom:unquote-quote', 'detail': f'unquote(quote({s!r})) != s'})
        if any(c in q0 for c in '/?#') or any(c in q1 for c in '?#') or ('/' not in s and '/' in q1):
            bad.append({'key': 'urllib-axiom:quote-charset', 'detail': f'quote({s!r}) -> {q0!r} / {q1!r}'})
    names = ('fac', 'bldng', 'flr', 'poc', 'rm', 'bed')
    for combo in itertools.product(atoms[:20], repeat=2):
        for k in range(5):
            cases += 1
            d = {names[k]: combo[0], names[k + 1]: combo[1]}
            d = {a: b for a, b in d.items() if b}
            q = urlencode(d)
            if '#' in q or dict(parse_qsl(q)) != d:
                bad.append({'key': 'urllib-axiom:urlencode-parse_qsl', 'detail': f'{d!r} -> {q!r} -> {dict(parse_qsl(q))!r}'})
            if not combo[0] or '/' in combo[0]:
                continue          # empty root / root with '/': path '//...' is read as an authority (excluded by the contract's precondition)
            path = '/' + quote(combo[0]) + '/' + quote(combo[1], safe='')
            u = urlunparse(ParseResult(scheme='sdc.ctxt.loc', netloc=None, path=path, params=None, query=q, fragment=None))
            sp = urlsplit(u)
            if (sp.scheme, sp.path, sp.query) != ('sdc.ctxt.loc', path, q):
                bad.append({'key': 'urllib-axiom:urlsplit-urlunparse', 'detail': f'{path!r} ? {q!r} -> {u!r} -> {tuple(sp)[:4]!r}'})
            if '/' not in combo[0] and path.split('/') != ['', quote(combo[0]), quote(combo[1], safe='')]:
                bad.append({'key': 'urllib-axiom:split', 'detail': f'{path!r}.split("/") = {path.split("/")!r}'})
    if 'sdc.ctxt.loc'.lower() != 'sdc.ctxt.loc':
        bad.append({'key': 'urllib-axiom:lower', 'detail': 'lower of the scheme constant'})
    return cases, bad[:5]


if __name__ == '__main__':
    c = Collector()
    c.run('C16.roundtrip', 'B', roundtrip, bound='all 64 present/absent combinations x seeded values over 28 reserved / non-ASCII atoms; containment laws')
    c.run('C16.urllib_axioms', 'B', urllib_axioms, bound='the assumed urllib.parse contracts of C16.scope_round_trip on 227 strings / 2000 query and path combinations over reserved and non-ASCII characters')
    c.run('C16.parse_is_stateless', 'B', parse_is_stateless, bound='3 rounds of parse / modify / parse / filter on one scope string')
    c.run('C16.from_scope_string_raises', 'B', raises_only, bound='16 fixed + seeded random malformed scope strings: only UrlSchemeError / ValueError')
    c.run('C16.published_chain', 'B', published_chain, bound='63 non-empty combinations x seeded values through LocationContextState -> scopesfactory')
    c.run('C16.filter_foreign', 'B', filter_foreign, bound='23 foreign scope strings (malformed, other schemes, unknown / duplicated / empty query keys)', replay_fn='C16:filter_total')
    c.emit()
