"""Helpers for native checks on the real ProviderMdib / ConsumerMdib."""
import copy
import os

import sdc11073.definitions_sdc  # noqa: F401  (registers the data model)
from lxml import etree
from sdc11073.mdib import ProviderMdib

TESTS = os.path.join(os.environ.get('PYVC_REPO', '/repo'), 'tests')
MDIB_FILE = os.path.join(TESTS, '70041_MDIB_Final.xml')
MDIB_TWO_MDS = os.path.join(TESTS, 'mdib_two_mds.xml')


def load(path=MDIB_FILE):
    return ProviderMdib.from_mdib_file(path)


def canon(container, mdib):
    """Canonical XML text of a container (all published properties)."""
    nsh = mdib.data_model.ns_helper
    node = container.mk_node(etree.QName('urn:x', 'c'), nsh)
    node.attrib.pop('DateAndTime', None)   # the self-updating clock time is excluded (property C01 / C03)
    return etree.tostring(node)


def snapshot(mdib):
    """Everything observable in the MDIB: version group, canonical content of all containers, index contents."""
    snap = {'group': (mdib.mdib_version, mdib.sequence_id, mdib.instance_id)}
    snap['descr'] = {d.Handle: canon(d, mdib) for d in mdib.descriptions.objects}
    snap['states'] = {s.DescriptorHandle: canon(s, mdib) for s in mdib.states.objects}
    snap['ctx'] = {s.Handle: canon(s, mdib) for s in mdib.context_states.objects if s is not None}
    snap['n'] = (len(mdib.descriptions.objects), len(mdib.states.objects), len(mdib.context_states.objects))
    for name, table in (('descr', mdib.descriptions), ('states', mdib.states), ('ctx', mdib.context_states)):
        idx = {}
        for iname, index in table._idx_defs.items():
            idx[iname] = {repr(k): sorted(id(o) for o in v) for k, v in index.items()}
        snap['idx_' + name] = idx
        # version memory of removed objects (consulted when a handle is re-created): part of the MDIB state (C02/C03)
        snap['memory_' + name] = dict(getattr(table, 'handle_version_lookup', {}))
    return snap


def diff(a, b):
    out = []
    for k in a:
        if a[k] != b.get(k):
            if isinstance(a[k], dict):
                ks = [x for x in set(a[k]) | set(b.get(k, {})) if a[k].get(x) != b.get(k, {}).get(x)]
                out.append(f'{k}: {sorted(map(str, ks))[:4]}')
            else:
                out.append(f'{k}: {a[k]!r} -> {b.get(k)!r}')
    return out


def metric_handles(mdib):
    return sorted(s.DescriptorHandle for s in mdib.states.objects
                  if s.is_metric_state and not s.is_realtime_sample_array_metric_state)


def alert_handles(mdib):
    return sorted(s.DescriptorHandle for s in mdib.states.objects if s.is_alert_state)


def component_handles(mdib):
    return sorted(s.DescriptorHandle for s in mdib.states.objects if s.is_component_state)


def operation_handles(mdib):
    return sorted(s.DescriptorHandle for s in mdib.states.objects if s.is_operational_state)
