"""Helpers for [F]/[B] checks that execute the real code under /venv/bin/python."""
import json
import sys
import time
import traceback


class Collector:
    def __init__(self):
        self.results = []

    def run(self, name, tag, fn, bound=None, replay_fn=None):
        """fn() -> (cases:int, witnesses:list[dict(key, detail, inputs?)])."""
        t0 = time.time()
        try:
            cases, witnesses = fn()
            rec = {'name': name, 'tag': tag, 'cases': cases, 'bound': bound, 'ok': not witnesses,
                   'witnesses': witnesses[:5], 'detail': '; '.join(w['detail'] for w in witnesses[:3]),
                   'replay_fn': replay_fn, 'wall_s': round(time.time() - t0, 2)}
        except Exception:  # noqa: BLE001
            rec = {'name': name, 'tag': tag, 'cases': 0, 'bound': bound, 'ok': None,
                   'detail': 'harness error: ' + traceback.format_exc()[-1200:]}
        self.results.append(rec)

    def run_parallel(self, specs, jobs=6):
        """specs: list of (name, tag, fn, bound); each check runs in its own forked process."""
        import multiprocessing as mp
        ctx = mp.get_context('fork')
        procs = []
        for name, tag, fn, bound in specs:
            parent, child = ctx.Pipe(duplex=False)

            def target(conn=child, a=(name, tag, fn, bound)):
                c = Collector()
                c.run(a[0], a[1], a[2], bound=a[3])
                conn.send(c.results)
                conn.close()
            pr = ctx.Process(target=target)
            pr.start()
            procs.append((name, tag, bound, pr, parent))
        for name, tag, bound, pr, parent in procs:
            try:
                if parent.poll(3000):
                    self.results.extend(parent.recv())
                else:
                    raise TimeoutError
            except Exception as ex:  # noqa: BLE001
                self.results.append({'name': name, 'tag': tag, 'ok': None, 'cases': 0, 'bound': bound,
                                     'detail': f'harness error: no result from the check process ({ex!r})', 'witnesses': []})
            pr.join(10)
            if pr.is_alive():
                pr.kill()

    def emit(self):
        print(json.dumps(self.results, default=str))


def tier():
    return sys.argv[1] if len(sys.argv) > 1 else 'quick'


XSI_TYPE = '{http://www.w3.org/2001/XMLSchema-instance}type'


def xml_canon(node):
    """Namespace-prefix independent structural form of an lxml element (C14N fails on the relative namespace URI the
    library's default namespace map contains): (tag, sorted attributes, text, children); xsi:type values are resolved
    to Clark notation; whitespace-only text and tails are ignored."""
    attrs = []
    for k, v in sorted(node.attrib.items()):
        if k == XSI_TYPE and ':' in v:
            pfx, local = v.split(':', 1)
            v = '{%s}%s' % (node.nsmap.get(pfx), local)
        attrs.append((k, v))
    text = node.text if node.text is not None and node.text.strip() else ''
    return (node.tag, tuple(attrs), text, tuple(xml_canon(c) for c in node if isinstance(c.tag, str)))
