"""Helpers for [F]/[B] checks that execute the real code under /venv/bin/python."""
import json
import sys
import time
import traceback


class Collector:
    def __init__(self):
        self.results = []

    def run(self, name, tag, fn, bound=None, replay_fn=None):
        """fn() -> (cases:int, witnesses:list[dict(key, detail, inputs?)])."""
        t0 = time.time()
        try:
            cases, witnesses = fn()
            rec = {'name': name, 'tag': tag, 'cases': cases, 'bound': bound, 'ok': not witnesses,
                   'witnesses': witnesses[:5], 'detail': '; '.join(w['detail'] for w in witnesses[:3]),
                   'replay_fn': replay_fn, 'wall_s': round(time.time() - t0, 2)}
        except Exception:  # noqa: BLE001
            rec = {'name': name, 'tag': tag, 'cases': 0, 'bound': bound, 'ok': None,
                   'detail': 'harness error: ' + traceback.format_exc()[-1200:]}
        self.results.append(rec)

    def emit(self):
        print(json.dumps(self.results, default=str))


def tier():
    return sys.argv[1] if len(sys.argv) > 1 else 'quick'
