"""C02 [B]: seeded transaction histories of every kind (classic and entity interface) on a real provider; after every
step: MdibVersion advanced by one per commit, every changed state / descriptor advanced its version by the number of
times the history touched it (never backwards, unchanged ones untouched), every state refers to the current
DescriptorVersion of its descriptor, re-created handles continue their counters."""
import os

from native.nativelib import Collector, tier
import native.loopback  # noqa: F401

SEED = int(os.environ.get('VERIF_SEED', '0') or 0)


def _versions(mdib):
    d = {x.Handle: x.DescriptorVersion for x in mdib.descriptions.objects}
    s = {x.DescriptorHandle: x.StateVersion for x in mdib.states.objects}
    c = {x.Handle: x.StateVersion for x in mdib.context_states.objects}
    return d, s, c


def referential(mdib):
    out = []
    dv = {x.Handle: x.DescriptorVersion for x in mdib.descriptions.objects}
    for st in list(mdib.states.objects) + list(mdib.context_states.objects):
        if st.DescriptorHandle not in dv:
            out.append(f'state {st.DescriptorHandle} has no descriptor')
        elif st.DescriptorVersion != dv[st.DescriptorHandle]:
            out.append(f'state {getattr(st, "Handle", st.DescriptorHandle)} refers to DescriptorVersion {st.DescriptorVersion}, its descriptor {st.DescriptorHandle} is at {dv[st.DescriptorHandle]}')
    seen = {}
    for st in mdib.states.objects:
        if st.DescriptorHandle in seen:
            out.append(f'descriptor {st.DescriptorHandle} has more than one single state')
        seen[st.DescriptorHandle] = st
    for d in mdib.descriptions.objects:
        if d.parent_handle is not None and d.parent_handle not in dv:
            out.append(f'descriptor {d.Handle}: parent {d.parent_handle} does not exist')
    return out


def version_history(mdib_file, n_steps, seeds, kinds=None):
    from sdc11073 import observableproperties as properties
    from native.histories import History
    from native.loopback import Loop
    cases, bad = 0, []
    for seed in seeds:
        with Loop(mdib_file, with_consumer_mdib=False, n_consumers=0) as lp:
            mdib = lp.pmdib
            results_live = []
            results = results_live
            properties.strongbind(mdib, transaction=results_live.append)
            high_d, high_s, high_c = {}, {}, {}     # highest version ever seen per handle (also of deleted ones)
            d0, s0, c0 = _versions(mdib)
            for tbl, hi in ((d0, high_d), (s0, high_s), (c0, high_c)):
                hi.update(tbl)
            h = History(lp, seed)
            for i in range(n_steps):
                with mdib.mdib_lock:      # background commits of the role provider (alert system self check) must not fall between these reads
                    del results_live[:]
                    v0 = mdib.mdib_version
                    before = _versions(mdib)
                try:
                    kind, detail = h.step(kinds[i % len(kinds)] if kinds else None)
                except Exception as ex:  # noqa: BLE001
                    bad.append({'key': f'step-failed:{h.log[-1][0] if h.log else "?"}', 'detail': f'{mdib_file} seed {seed} step {i}: {ex!r}'[:300]})
                    break
                cases += 1
                label = f'{mdib_file} seed {seed} step {i} {kind} {detail}'
                with mdib.mdib_lock:
                    v1, n_res, after = mdib.mdib_version, len(results_live), _versions(mdib)
                    results = list(results_live)
                    ref_problems = referential(mdib)[:2]
                if v1 != v0 + n_res:
                    bad.append({'key': f'mdib-version-step:{kind}', 'detail': f'{label}: MdibVersion {v0} -> {v1} for {n_res} commit(s)'})
                changed_s = {s.DescriptorHandle for tr in results for s in tr.all_states() if not s.is_context_state}
                changed_c = {s.Handle for tr in results for s in tr.all_states() if s.is_context_state}
                changed_d = {d_.Handle for tr in results for d_ in list(tr.descr_updated) + list(tr.descr_created)}
                for name, b4, now, hi, changed in (('descriptor', before[0], after[0], high_d, changed_d),
                                                   ('state', before[1], after[1], high_s, changed_s),
                                                   ('context state', before[2], after[2], high_c, changed_c)):
                    for k, v in now.items():
                        if k in b4:
                            if k in changed and v <= b4[k]:
                                bad.append({'key': f'version-not-incremented:{name}', 'detail': f'{label}: {name} {k} reported as changed, version {b4[k]} -> {v}'})
                            if k not in changed and v != b4[k]:
                                bad.append({'key': f'version-changed-silently:{name}', 'detail': f'{label}: {name} {k} version {b4[k]} -> {v} without being reported'})
                        elif k in hi and v <= hi[k]:
                            bad.append({'key': f'recreated-version-restarts:{name}', 'detail': f'{label}: re-created {name} {k} has version {v}, it had {hi[k]} before'})
                        if v < hi.get(k, v):
                            bad.append({'key': f'version-decreased:{name}', 'detail': f'{label}: {name} {k} version {v} < earlier {hi[k]}'})
                        hi[k] = max(hi.get(k, v), v)
                for r in ref_problems:
                    bad.append({'key': f'referential:{kind}', 'detail': f'{label}: {r}'})
                # reported copies carry the committed versions
                for tr in results:
                    for s in tr.all_states():
                        cur = (mdib.context_states.handle.get_one(s.Handle, allow_none=True) if s.is_context_state
                               else mdib.states.descriptor_handle.get_one(s.DescriptorHandle, allow_none=True))
                        if cur is not None and tr is results[-1] and mdib.mdib_version == v1 and s.StateVersion != cur.StateVersion:
                            bad.append({'key': f'reported-version-differs:{kind}', 'detail': f'{label}: reported StateVersion {s.StateVersion}, MDIB has {cur.StateVersion}'})
                if len(bad) > 5:
                    return cases, bad
    return cases, bad


def every_kind():
    from native.histories import KINDS
    order = tuple(k for k in KINDS if k != 'stale_entity') + ('stale_entity', 'stale_entity')
    return version_history('70041_MDIB_Final.xml', len(order) * 2, [SEED + 50], kinds=order)


def single():
    n, seeds = (45, [SEED, SEED + 1]) if tier() == 'quick' else (150, [SEED + i for i in range(6)])
    return version_history('70041_MDIB_Final.xml', n, seeds)


def two_mds():
    n, seeds = (30, [SEED + 3]) if tier() == 'quick' else (120, [SEED + 3 + i for i in range(4)])
    return version_history('mdib_two_mds.xml', n, seeds)


if __name__ == '__main__':
    c = Collector()
    c.run_parallel([
        ('C02.version_history_every_kind', 'B', every_kind, 'each of the 18 transaction kinds twice in fixed order (stale entity write for a context state and a single state)'),
        ('C02.version_history_single_mds', 'B', single, 'quick: 2 seeds x 45 random transactions of 18 kinds; thorough: 6 x 150'),
        ('C02.version_history_two_mds', 'B', two_mds, 'quick: 1 seed x 30; thorough: 4 x 120 (mdib_two_mds.xml)'),
    ])
    c.emit()
