"""C08: [F] no BICEPS/WS-* action is a proper suffix of another; [B] subscription send matrix on the real classes."""
from native.nativelib import Collector
from native import replays_C08


def action_suffix_free():
    from sdc11073.definitions_sdc import SdcV1Definitions
    acts = SdcV1Definitions.Actions
    names = [n for n in dir(acts) if not n.startswith('_')]
    values = sorted({getattr(acts, n) for n in names if isinstance(getattr(acts, n), str)})
    bad = []
    for a in values:
        for b in values:
            if a != b and b.endswith(a):
                bad.append({'key': 'action-suffix', 'detail': f'{a!r} is a proper suffix of {b!r}: suffix matching != membership'})
    return len(values) * len(values), bad


def wrap(fn):
    def run():
        r = fn({})
        return 1, ([{'key': r.get('witness_key'), 'detail': r['detail']}] if r.get('violates') else [])
    return run


if __name__ == '__main__':
    c = Collector()
    c.run('C08.action_suffix_free', 'F', action_suffix_free, bound='all pairs of the action URIs of SdcV1Definitions.Actions')
    c.run('C08.renew_matrix', 'B', wrap(replays_C08.renew), bound='6 (requested, maximum) pairs incl. 0 and None', replay_fn='C08:renew')
    c.run('C08.send_matrix', 'B', wrap(replays_C08.send_report_sync), bound='5 subscription states x 3 delivery failures on the real BicepsSubscription', replay_fn='C08:send_report_sync')
    c.emit()
