"""Native replays for C03 obligations (run under /venv/bin/python against the tree the VCs came from)."""
import os
from decimal import Decimal

REPO = os.environ.get('PYVC_REPO', '/repo')


def _mdib():
    import sdc11073.definitions_sdc  # noqa: F401
    from sdc11073.mdib import ProviderMdib
    return ProviderMdib.from_mdib_file(os.path.join(REPO, 'tests', '70041_MDIB_Final.xml'))


def add_descriptor_rejected(inputs):
    """A descriptor transaction in which add_descriptor is rejected (the state handed in belongs to another descriptor;
    the state cannot be taken) and the application handles the exception: the commit must not contain the descriptor."""
    from sdc11073.xml_types import pm_qnames as pm
    findings = []
    for case in ('state-of-another-descriptor', 'state-rejected-by-add_state'):
        m = _mdib()
        v0 = m.mdib_version
        parent = [d for d in m.descriptions.objects if d.NODETYPE == pm.ChannelDescriptor][0]
        cls = m.data_model.get_descriptor_container_class(pm.NumericMetricDescriptor)
        d = cls('verif.new.metric', parent.Handle)
        d.Unit = m.data_model.pm_types.CodedValue('x')
        d.Resolution = Decimal('1')
        other = [x for x in m.states.objects if x.NODETYPE == pm.NumericMetricState][0]
        rejected = None
        with m.descriptor_transaction() as tr:
            if case == 'state-of-another-descriptor':
                state = other.mk_copy()
            else:
                scls = m.data_model.get_state_container_class(pm.NumericMetricState)
                state = scls(d)
                # the transaction already holds a state under this handle: add_state refuses the second one
                tr.metric_state_updates[d.Handle] = object()
            try:
                tr.add_descriptor(d, state_container=state)
            except Exception as ex:  # noqa: BLE001
                rejected = ex
            if case != 'state-of-another-descriptor':
                tr.metric_state_updates.pop(d.Handle, None)
            pending = d.Handle in tr.descriptor_updates
        stored = m.descriptions.handle.get_one(d.Handle, allow_none=True) is not None
        if rejected is not None and (pending or stored or m.mdib_version != v0):
            findings.append(f'{case}: add_descriptor raised {type(rejected).__name__} ("rejected"), the application handled it, '
                            f'and the commit still created descriptor {d.Handle}: MdibVersion {v0} -> {m.mdib_version}, '
                            f'descriptor stored: {stored}')
    if findings:
        return {'violates': True, 'witness_key': 'rejected-add-descriptor-stays-queued', 'detail': '; '.join(findings)}
    return {'violates': False, 'detail': 'rejected add_descriptor calls left the transaction unchanged'}
