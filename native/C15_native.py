"""C15 [F]: the six discovery send functions of the real WSDiscovery, driven with a recording networking thread:
datagrams for the multicast group carry the multicast repeat count (4), unicast answers the unicast one (2)."""
from native.nativelib import Collector
from sdc11073.wsdiscovery import wsdimpl, networkingthread
from sdc11073.wsdiscovery.common import MULTICAST_IPV4_ADDRESS
from sdc11073.wsdiscovery.service import Service
from sdc11073.xml_types import wsd_types


def send_functions():
    wsd = wsdimpl.WSDiscovery('127.0.0.1')
    sent = []

    class Recorder:
        def add_outbound_message(self, msg, addr, port, repeat_params):
            sent.append((addr, port, repeat_params))
    wsd._networking_thread = Recorder()
    scopes = wsd_types.ScopesType(value='sdc.ctxt.loc:/sdc.ctxt.loc.detail/x')
    srv = Service(types=[], scopes=scopes, x_addrs=['http://127.0.0.1:1/x'], epr='urn:uuid:1', instance_id='1',
                  metadata_version=1)
    calls = [('_send_probe', lambda: wsd._send_probe(None, None), True),
             ('_send_resolve', lambda: wsd._send_resolve('urn:uuid:1'), True),
             ('_send_hello', lambda: wsd._send_hello(srv), True),
             ('_send_bye', lambda: wsd._send_bye(srv), True),
             ('_send_probe_match', lambda: wsd._send_probe_match([srv], 'urn:uuid:m', ('10.1.2.3', 5000)), False),
             ('_send_resolve_match', lambda: wsd._send_resolve_match(srv, 'urn:uuid:m', ('10.1.2.3', 5000)), False)]
    bad = []
    for name, fn, multicast in calls:
        del sent[:]
        fn()
        if not sent:
            bad.append({'key': f'nothing-sent:{name}', 'detail': f'{name} scheduled no datagram'})
        for addr, port, params in sent:
            is_mc = addr == MULTICAST_IPV4_ADDRESS
            want = 4 if is_mc else 2
            if is_mc != multicast:
                bad.append({'key': f'wrong-destination:{name}', 'detail': f'{name} sent to {addr}'})
            if params.repeat != want or params is not (networkingthread.MULTICAST_REPEAT_PARAMS if is_mc
                                                       else networkingthread.UNICAST_REPEAT_PARAMS):
                bad.append({'key': f'wrong-repeat-params:{name}',
                            'detail': f'{name}: datagram to {addr} scheduled with repeat={params.repeat} '
                                      f'(SOAP-over-UDP: {want} for {"multicast" if is_mc else "unicast"})'})
    return len(calls), bad


if __name__ == '__main__':
    c = Collector()
    c.run('C15.send_functions_repeat_params', 'F', send_functions,
          bound='all six send functions of WSDiscovery (probe, resolve, hello, bye, probe match, resolve match)')
    c.emit()
