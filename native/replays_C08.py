"""Native replay oracles for C08 (real subscription classes with a recording fake SOAP client)."""
import time
import types

from sdc11073.provider import subscriptionmgr, subscriptionmgr_base


def renew(inputs):
    cands = []
    if 'expires' in inputs and inputs.get('self._max') is not None:
        try:
            cands.append((float(inputs['expires']), float(inputs['self._max'])))
        except (TypeError, ValueError):
            pass
    cands += [(0.0, 7200.0), (0, 60), (10.0, 60.0), (100.0, 60.0), (None, 60.0), (0.001, 1.0)]
    for req, mx in cands:
        fake = types.SimpleNamespace(_max_subscription_duration=mx, _started=None, _expire_seconds=None)
        subscriptionmgr_base.SubscriptionBase.renew(fake, req)
        g = fake._expire_seconds
        if req is not None and g > req:
            return {'violates': True, 'witness_key': 'granted-exceeds-requested',
                    'detail': f'renew(expires={req!r}) with maximum {mx} grants {g}', 'input': {'expires': req, 'max': mx}}
        if g > mx:
            return {'violates': True, 'witness_key': 'granted-exceeds-maximum', 'detail': f'renew({req!r}) grants {g} > {mx}'}
        if req is None and g != mx:
            return {'violates': True, 'witness_key': 'default-not-maximum', 'detail': f'renew(None) grants {g}, maximum {mx}'}
    return {'violates': False, 'detail': f'{len(cands)} renewals within requested and maximum duration'}


from sdc11073 import observableproperties as _props


class _Client:
    roundtrip_time = _props.ObservableProperty()

    def __init__(self, fail=None):
        self.posts = []
        self.fail = fail

    def post_message_to(self, path, message, msg=''):
        self.posts.append(path)
        if self.fail:
            raise self.fail


def _mk_sub(cls, *, closed=False, remaining=100.0, errors=0, unsubscribed=False, fail=None):
    sub = cls.__new__(cls)
    client = _Client(fail)
    sub._is_closed = closed
    sub._started = time.monotonic()
    sub._expire_seconds = remaining
    sub._max_subscription_duration = 7200
    sub.notify_errors = errors
    sub._is_connection_error = False
    sub.unsubscribed_at = time.time() if unsubscribed else None
    sub.notify_to_address = 'http://x/notify'
    sub.notify_to_url = types.SimpleNamespace(netloc='x', path='/notify')
    sub.notify_ref_params = None
    sub.last_roundtrip_times = []
    sub.max_roundtrip_time = 0
    sub._get_soap_client = lambda netloc=None: client
    sub._mk_notification_message = lambda inf, body: object()
    sub._logger = types.SimpleNamespace(debug=lambda *a, **k: None, info=lambda *a, **k: None)
    return sub, client


def send_report_sync(inputs):
    from sdc11073.pysoap.soapclient import HTTPReturnCodeError
    cases = [
        ('live', dict(), 1), ('closed', dict(closed=True), 0), ('expired', dict(remaining=-1.0), 0),
        ('too-many-errors', dict(errors=subscriptionmgr_base.SubscriptionBase.MAX_NOTIFY_ERRORS), 0),
        ('unsubscribed', dict(unsubscribed=True), 0),
    ]
    for name, kw, want in cases:
        sub, client = _mk_sub(subscriptionmgr.BicepsSubscription, **kw)
        sub.send_notification_report(object(), 'some/action')
        if len(client.posts) != want:
            return {'violates': True, 'witness_key': f'send-{name}',
                    'detail': f'{name} subscription: {len(client.posts)} notification(s) posted, expected {want}',
                    'input': {'state': name}}
    for exc in (HTTPReturnCodeError(500, 'x', None), ConnectionRefusedError(), TimeoutError()):
        sub, client = _mk_sub(subscriptionmgr.BicepsSubscription, fail=exc)
        try:
            sub.send_notification_report(object(), 'some/action')
            return {'violates': True, 'witness_key': 'failure-swallowed', 'detail': f'{exc!r} not re-raised'}
        except type(exc):
            pass
        if sub.notify_errors != 1:
            return {'violates': True, 'witness_key': 'failure-not-counted', 'detail': f'{exc!r}: notify_errors={sub.notify_errors}'}
    return {'violates': False, 'detail': 'sync send: posts iff live; failures counted and re-raised'}
