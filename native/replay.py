"""Native replay dispatcher: runs under /venv/bin/python with the real sdc11073 importable.

stdin: {"fn": "C15:schedule", "inputs": {...}}  -> last stdout line: {"violates": bool|null, "detail": str, ...}
"""
import importlib
import json
import sys
import traceback


def main():
    req = json.loads(sys.stdin.read())
    modname, _, fn = req['fn'].partition(':')
    try:
        mod = importlib.import_module(f'native.replays_{modname}')
        res = getattr(mod, fn)(req['inputs'])
    except Exception:  # noqa: BLE001
        res = {'violates': None, 'detail': 'replay crashed: ' + traceback.format_exc()[-1500:]}
    print(json.dumps(res, default=str))


if __name__ == '__main__':
    main()
