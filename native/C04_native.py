"""C04: [F] report part API of every report class; [B] every report sent by a real provider compared with the committed
transaction result (content, version group, MDS grouping, schema validity), delivery order under concurrent writers for
the synchronous and the asynchronous subscription manager, integrity of the copies retained for periodic reports."""
import os
import threading
import time

from native.nativelib import Collector, tier
import native.loopback  # noqa: F401

SEED = int(os.environ.get('VERIF_SEED', '0') or 0)
MSG = 'http://standards.ieee.org/downloads/11073/11073-10207-2017/message'
PM = 'http://standards.ieee.org/downloads/11073/11073-10207-2017/participant'
KIND_OF_REPORT = {'EpisodicMetricReport': 'metric_updates', 'EpisodicAlertReport': 'alert_updates',
                  'EpisodicComponentReport': 'comp_updates', 'EpisodicOperationalStateReport': 'op_updates',
                  'EpisodicContextReport': 'ctxt_updates', 'WaveformStream': 'rt_updates'}


def report_part_api():
    """[F] every report class with add_report_part: the call appends one new part of the declared part class and returns
    that very object; values_list of the part is the list member the part serialises."""
    import inspect
    from sdc11073.xml_types import msg_types
    cases, bad = 0, []
    for name, cls in vars(msg_types).items():
        if not inspect.isclass(cls) or not hasattr(cls, 'add_report_part') or inspect.isabstract(cls):
            continue
        try:
            r = cls()
        except Exception:  # noqa: BLE001
            continue
        cases += 1
        n0 = len(r.ReportPart)
        p = r.add_report_part()
        if len(r.ReportPart) != n0 + 1 or r.ReportPart[-1] is not p:
            bad.append({'key': f'add_report_part:{name}', 'detail': f'{name}.add_report_part() does not append and return one new part'})
            continue
        want_cls = type(r).__dict__.get('ReportPart', None) or getattr(type(r), 'ReportPart')
        if hasattr(p, 'values_list'):
            members = [getattr(p, n) for n in type(p)._props if isinstance(getattr(p, n), list)]
            if not any(p.values_list is m for m in members):
                bad.append({'key': f'values_list:{name}', 'detail': f'{type(p).__name__}.values_list is not one of its serialised list members'})
            p2 = r.add_report_part()
            if p2 is p or p2.values_list is p.values_list:
                bad.append({'key': f'parts-share-state:{name}', 'detail': f'two parts of {name} share the same object / list'})
    if cases < 10:
        bad.append({'key': 'too-few-report-classes', 'detail': str(cases)})
    return cases, bad


def _local(tag):
    return tag.split('}')[-1]


def _check_report(body, tr, group, pmdib, validator):
    """Differences between one sent report body and the transaction result / version group of its commit."""
    out = []
    name = _local(body.tag)
    got_group = (int(body.get('MdibVersion', '0')), body.get('SequenceId'), body.get('InstanceId'))
    want_group = (group.mdib_version, group.sequence_id, None if group.instance_id is None else str(group.instance_id))
    if got_group != want_group:
        out.append(f'{name}: version group {got_group}, committed {want_group}')
    try:
        validator.assertValid(body)
    except Exception as ex:  # noqa: BLE001
        out.append(f'{name}: not schema valid: {str(ex)[:200]}')
    if name in KIND_OF_REPORT:
        want = {}
        for s in getattr(tr, KIND_OF_REPORT[name]):
            key = s.Handle if s.is_context_state else s.DescriptorHandle
            want[key] = (str(s.StateVersion), s.source_mds)
        got = {}
        parts = body.findall(f'{{{MSG}}}ReportPart') if name != 'WaveformStream' else [body]
        for part in parts:
            src = part.find(f'{{{MSG}}}SourceMds')
            for st in part:
                if _local(st.tag) in ('SourceMds', 'Extension'):
                    continue
                key = st.get('Handle') if name == 'EpisodicContextReport' else st.get('DescriptorHandle')
                if key in got:
                    out.append(f'{name}: state {key} reported twice')
                got[key] = (st.get('StateVersion', '0'), src.text if src is not None else None)
        if name == 'WaveformStream':
            got = {k: (v[0], want.get(k, (None, None))[1]) for k, v in got.items()}
        if set(got) != set(want):
            out.append(f'{name}: reports {sorted(got)[:4]}, the transaction changed {sorted(want)[:4]}')
        for k in set(got) & set(want):
            if got[k] != want[k]:
                out.append(f'{name}: state {k} reported as (version, source mds) {got[k]}, committed {want[k]}')
        seen_mds = [p.findtext(f'{{{MSG}}}SourceMds') for p in parts] if name != 'WaveformStream' else []
        if len(seen_mds) != len(set(seen_mds)):
            out.append(f'{name}: more than one report part for the same MDS {seen_mds}')
    elif name == 'DescriptionModificationReport':
        want = {}
        for attr, mod in (('descr_updated', 'Upt'), ('descr_created', 'Crt'), ('descr_deleted', 'Del')):
            for d in getattr(tr, attr):
                want[d.Handle] = (mod, str(d.DescriptorVersion), d.parent_handle, d.source_mds)
        got = {}
        for part in body.findall(f'{{{MSG}}}ReportPart'):
            mod = part.get('ModificationType', 'Upt')
            src = part.findtext(f'{{{MSG}}}SourceMds')
            for d in part.findall(f'{{{MSG}}}Descriptor'):
                got[d.get('Handle')] = (mod, d.get('DescriptorVersion', '0'), part.get('ParentDescriptor'), src)
            handles = {d.get('Handle') for d in part.findall(f'{{{MSG}}}Descriptor')}
            for s in part.findall(f'{{{MSG}}}State'):
                if s.get('DescriptorHandle') not in handles:
                    out.append(f'{name}: state of {s.get("DescriptorHandle")} in the part of {sorted(handles)}')
        if got != want:
            diff = [k for k in set(got) | set(want) if got.get(k) != want.get(k)]
            out.append(f'{name}: descriptor {diff[0]} reported as {got.get(diff[0])}, committed {want.get(diff[0])}')
        want_states = {(s.Handle if s.is_context_state else s.DescriptorHandle): str(s.StateVersion) for s in tr.all_states()}
        got_states = {}
        for s in body.iter(f'{{{MSG}}}State'):
            got_states[s.get('Handle') or s.get('DescriptorHandle')] = s.get('StateVersion', '0')
        deleted = {d.Handle for d in tr.descr_deleted}
        got_states = {k: v for k, v in got_states.items()}
        want_states = {k: v for k, v in want_states.items()}
        if got_states != want_states:
            diff = [k for k in set(got_states) | set(want_states) if got_states.get(k) != want_states.get(k)]
            out.append(f'{name}: state {diff[0]} reported with version {got_states.get(diff[0])}, committed {want_states.get(diff[0])}')
    return out


def report_content(mdib_file, n_steps, seeds, kinds=None):
    from sdc11073 import observableproperties as properties
    from sdc11073.schema_resolver import mk_schema_validator
    from native.histories import History
    from native.loopback import Loop
    cases, bad = 0, []
    for seed in seeds:
        with Loop(mdib_file, with_consumer_mdib=True) as lp:
            nsh = lp.pmdib.data_model.ns_helper
            validator = mk_schema_validator(nsh.prefix_enum, nsh)
            commits = []
            properties.strongbind(lp.pmdib, transaction=lambda tr: commits.append((tr, lp.pmdib.mdib_version_group)))
            h = History(lp, seed)
            for i in range(n_steps):
                with lp.pmdib.mdib_lock:      # no background commit (alert system self check) between these two reads
                    del commits[:]
                    n0 = len(lp.sent)
                kind, detail = h.step(kinds[i % len(kinds)] if kinds else None)
                with lp.pmdib.mdib_lock:
                    new = list(lp.sent[n0:])
                    commits_now = list(commits)
                if len(commits_now) != 1:
                    continue     # set_location may run more than one transaction: checked by the order test only
                tr, group = commits_now[0]
                seen = set()
                for mgr, action, mvg, body in new:
                    cases += 1
                    name = _local(body.tag)
                    if name in seen and name != 'OperationInvokedReport':
                        bad.append({'key': f'report-sent-twice:{name}', 'detail': f'{mdib_file} seed {seed} step {i} {kind}: two {name} for one transaction'})
                    seen.add(name)
                    for d in _check_report(body, tr, group, lp.pmdib, validator):
                        bad.append({'key': f'report-differs:{name}', 'detail': f'{mdib_file} seed {seed} step {i} {kind} {detail}: {d}'})
                    if (mvg.mdib_version, mvg.sequence_id, mvg.instance_id) != (group.mdib_version, group.sequence_id, group.instance_id):
                        bad.append({'key': f'observable-group-differs:{name}', 'detail': f'{kind}: sent_to_subscribers carries {mvg}, committed {group}'})
                # completeness: every kind the transaction changed has its report
                for rep, attr in KIND_OF_REPORT.items():
                    if getattr(tr, attr) and rep not in seen:
                        bad.append({'key': f'report-missing:{rep}', 'detail': f'{mdib_file} seed {seed} step {i} {kind}: {attr} changed but no {rep} was sent'})
                    if not getattr(tr, attr) and rep in seen:
                        bad.append({'key': f'report-unexpected:{rep}', 'detail': f'{mdib_file} seed {seed} step {i} {kind}: {rep} sent although {attr} is empty'})
                if tr.has_descriptor_updates != ('DescriptionModificationReport' in seen):
                    bad.append({'key': 'report-missing:DescriptionModificationReport', 'detail': f'{mdib_file} seed {seed} step {i} {kind}'})
                if len(bad) > 5:
                    return cases, bad
    return cases, bad


def content_every_kind():
    from native.histories import KINDS
    order = tuple(k for k in KINDS if k != 'descr_update_context') + ('context', 'descr_update_context')
    return report_content('mdib_two_mds.xml', len(order), [SEED + 21], kinds=order)


def content_single():
    n, seeds = (30, [SEED]) if tier() == 'quick' else (120, [SEED + i for i in range(5)])
    return report_content('70041_MDIB_Final.xml', n, seeds)


def content_two_mds():
    n, seeds = (30, [SEED + 7]) if tier() == 'quick' else (120, [SEED + 7 + i for i in range(5)])
    return report_content('mdib_two_mds.xml', n, seeds)


def _order(components, label):
    """T writer threads commit concurrently; the consumer must see MdibVersions in non-decreasing order."""
    from sdc11073 import observableproperties as properties
    from native import mdibtools as mt
    from native.loopback import Loop
    from native.C01_native import mdib_diff
    from sdc11073.xml_types import pm_types
    n_threads, n_tx = (4, 8) if tier() == 'quick' else (8, 40)
    cases, bad = 0, []
    with Loop(components=components() if components else None, n_consumers=2) as lp:
        received = [[] for _ in lp.consumers]
        for i, c in enumerate(lp.consumers):
            properties.strongbind(c, state_event_report=lambda m, _i=i: received[_i].append((m.action, m.mdib_version_group.mdib_version)))
        metric = mt.metric_handles(lp.pmdib)
        alert = mt.alert_handles(lp.pmdib)
        comp = mt.component_handles(lp.pmdib)
        errors = []

        def writer(k):
            try:
                for j in range(n_tx):
                    which = (k + j) % 3
                    if which == 0:
                        with lp.pmdib.metric_state_transaction() as tr:
                            st = tr.get_state(metric[k % len(metric)])
                            st.LifeTimePeriod = float(j + 1)
                    elif which == 1:
                        with lp.pmdib.alert_state_transaction() as tr:
                            st = tr.get_state(alert[k % len(alert)])
                            st.ActivationState = pm_types.AlertActivation.ON if j % 2 else pm_types.AlertActivation.PAUSED
                    else:
                        with lp.pmdib.component_state_transaction() as tr:
                            st = tr.get_state(comp[k % len(comp)])
                            st.OperatingHours = j
            except Exception as ex:  # noqa: BLE001
                errors.append(repr(ex))
        commits = []      # every commit in the window, including the role provider's own (alert system self check)
        with lp.pmdib.mdib_lock:
            properties.strongbind(lp.pmdib, transaction=lambda tr: commits.append(lp.pmdib.mdib_version))
            n0 = len(lp.sent)
        threads = [threading.Thread(target=writer, args=(k,)) for k in range(n_threads)]
        for t in threads:
            t.start()
        for t in threads:
            t.join(60)
        lp.wait_synced(30)
        time.sleep(0.2)
        if errors:
            bad.append({'key': f'writer-failed:{label}', 'detail': errors[0][:300]})
        with lp.pmdib.mdib_lock:
            sent_versions = [mvg.mdib_version for _, _, mvg, _ in lp.sent[n0:]]
            commit_versions = list(commits)
        cases += len(sent_versions)
        if sent_versions != sorted(sent_versions):
            bad.append({'key': f'send-order:{label}', 'detail': f'provider handed reports to the subscription manager in version order {sent_versions[:20]}'})
        if len(commit_versions) < n_threads * n_tx:
            bad.append({'key': f'commits-missing:{label}', 'detail': f'{len(commit_versions)} commits observed for {n_threads * n_tx} transactions'})
        if set(sent_versions) != set(commit_versions):
            diff = sorted(set(sent_versions) ^ set(commit_versions))[:5]
            bad.append({'key': f'reports-per-commit:{label}', 'detail': f'report versions and commit versions differ: {diff}'})
        for i, rec in enumerate(received):
            versions = [v for _, v in rec]
            cases += len(versions)
            if versions != sorted(versions):
                pos = next(j for j in range(1, len(versions)) if versions[j] < versions[j - 1])
                bad.append({'key': f'delivery-order:{label}', 'detail': f'consumer {i} received MdibVersion {versions[pos]} after {versions[pos - 1]}'})
            body_versions = sorted(set(v for v in versions if v > 0))
            missing = set(sent_versions) - set(versions)
            if missing:
                bad.append({'key': f'delivery-missing:{label}', 'detail': f'consumer {i} never received the reports of versions {sorted(missing)[:5]}'})
        for i, m in enumerate(lp.consumer_mdibs):
            with lp.pmdib.mdib_lock:
                d = mdib_diff(lp.pmdib, m)
            if d:
                bad.append({'key': f'mirror-after-concurrent-writers:{label}', 'detail': f'consumer {i}: {d[:2]}'})
    return cases, bad


def order_sync():
    return _order(None, 'sync')


def order_async():
    from sdc11073.provider.providerimpl import provider_components_async_factory
    return _order(provider_components_async_factory, 'async')


def periodic_copies():
    """Copies retained for periodic reports keep the values of the version they are labelled with after later commits."""
    from sdc11073 import observableproperties as properties
    from native.histories import History
    from native.loopback import Loop
    cases, bad = 0, []
    with Loop(periodic=3600.0) as lp:     # handler active, first periodic send far in the future
        h = History(lp, SEED + 3)
        handler = lp.provider._periodic_reports_handler
        stores = {'metric_updates': handler._periodic_metric_reports, 'alert_updates': handler._periodic_alert_reports,
                  'comp_updates': handler._periodic_component_state_reports, 'ctxt_updates': handler._periodic_context_state_reports,
                  'op_updates': handler._periodic_operational_state_reports}
        committed = {}   # (attr, version) -> {handle: canonical xml at commit}
        from native.mdibtools import canon

        def on_tr(tr):
            v = lp.pmdib.mdib_version
            for attr in stores:
                sts = getattr(tr, attr)
                if sts:
                    committed[(attr, v)] = {(s.Handle if s.is_context_state else s.DescriptorHandle): canon(s, lp.pmdib) for s in sts}
        with lp.pmdib.mdib_lock:
            # commits of the provider's own threads (alert self checks) made before the observer is bound are not
            # recorded here: entries labelled with a version <= v0 are not compared
            properties.strongbind(lp.pmdib, transaction=on_tr)
            v0 = lp.pmdib.mdib_version
        for i in range(25 if tier() == 'quick' else 150):
            h.step(h.rnd.choice(('metric', 'alert', 'component', 'operational', 'context', 'metric', 'alert')))
        for attr, store in stores.items():
            for entry in list(store):
                cases += 1
                want = committed.get((attr, entry.mdib_version))
                if want is None:
                    if entry.mdib_version > v0:
                        bad.append({'key': f'periodic-label:{attr}', 'detail': f'{attr}: stored entry labelled {entry.mdib_version}, no commit of that kind at this version'})
                    continue
                got = {(s.Handle if s.is_context_state else s.DescriptorHandle): canon(s, lp.pmdib) for s in entry.states}
                if got != want:
                    k = [k for k in set(got) | set(want) if got.get(k) != want.get(k)][0]
                    bad.append({'key': f'periodic-copy-changed:{attr}', 'detail': f'{attr} version {entry.mdib_version}: copy of {k} no longer equals the committed state'})
        if cases < 10:
            bad.append({'key': 'too-few-periodic-entries', 'detail': str(cases)})
    return cases, bad


if __name__ == '__main__':
    c = Collector()
    c.run('C04.report_part_api', 'F', report_part_api, bound='every report class of msg_types with add_report_part')
    c.run_parallel([
        ('C04.report_content_every_kind', 'B', content_every_kind, 'every transaction kind of native/histories.py once in fixed order on the two-MDS MDIB'),
        ('C04.report_content_single_mds', 'B', content_single, 'quick: 1 seed x 30 random transactions, every sent report compared with the transaction result; thorough: 5 x 120'),
        ('C04.report_content_two_mds', 'B', content_two_mds, 'same on mdib_two_mds.xml (MDS grouping)'),
        ('C04.delivery_order_sync', 'B', order_sync, 'quick: 4 writer threads x 8 commits, 2 consumers, synchronous subscription manager; thorough: 8 x 40'),
        ('C04.delivery_order_async', 'B', order_async, 'same with the asynchronous subscription manager / SoapClientAsync'),
        ('C04.periodic_copies', 'B', periodic_copies, 'quick: 25 commits, thorough: 150; every retained entry compared with the state committed at its label'),
    ])
    c.emit()
