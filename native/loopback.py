"""Real provider and real consumer connected over 127.0.0.1 (the set-up the repository's own tests use).

The provider is tests.mockstuff.SomeDevice (SdcProvider with the tutorial role provider) with a discovery stub; the
consumer is SdcConsumer + ConsumerMdib with the synchronous request dispatcher, so a notification is applied to the
consumer MDIB before the provider's send call returns."""
import logging
import os
import sys
import time

REPO = os.environ.get('PYVC_REPO', '/repo')
for p in (REPO, os.path.join(REPO, 'examples'), os.path.join(REPO, 'tutorial')):
    if p not in sys.path:
        sys.path.insert(0, p)

import sdc11073.definitions_sdc  # noqa: E402,F401  (registers the data model)
from sdc11073 import observableproperties as properties  # noqa: E402
from sdc11073.consumer.consumerimpl import SdcConsumer, default_components_factory  # noqa: E402
from sdc11073.dispatch import RequestDispatcher  # noqa: E402
from sdc11073.mdib import ConsumerMdib  # noqa: E402
from sdc11073.xml_types import pm_types  # noqa: E402
from tests import utils  # noqa: E402
from tests.mockstuff import MockWsDiscovery, SomeDevice  # noqa: E402

logging.getLogger('sdc').setLevel(logging.CRITICAL)


class NullDiscovery(MockWsDiscovery):
    """WS-Discovery stub: the provider publishes into the void (no multicast in the sandbox)."""

    def publish_service(self, *a, **k):
        pass

    def clear_service(self, *a, **k):
        pass


class Loop:
    def __init__(self, mdib_file='70041_MDIB_Final.xml', components=None, periodic=None, with_consumer_mdib=True,
                 n_consumers=1):
        self.mdib_file = os.path.join(REPO, 'tests', mdib_file)
        self.components = components
        self.periodic = periodic
        self.with_consumer_mdib = with_consumer_mdib
        self.n_consumers = n_consumers
        self.sent = []          # (manager name, action, version group, body node) in provider send order
        self.consumers = []
        self.consumer_mdibs = []

    def __enter__(self):
        self.wsd = NullDiscovery('127.0.0.1')
        self.provider = SomeDevice.from_mdib_file(self.wsd, None, self.mdib_file, max_subscription_duration=30,
                                                  components=self.components)
        self.provider.start_all(periodic_reports_interval=self.periodic, start_rtsample_loop=False)
        self.provider.set_location(utils.random_location(), [pm_types.InstanceIdentifier('Validator', extension_string='System')])
        for name, mgr in self.provider._subscriptions_managers.items():
            properties.strongbind(mgr, sent_to_subscribers=lambda v, _n=name: self.sent.append((_n,) + tuple(v)))
        x_addr = self.provider.get_xaddrs()
        for i in range(self.n_consumers):
            comp = default_components_factory()
            comp.action_dispatcher_class = RequestDispatcher
            # the first request of a consumer occasionally times out when the machine is very busy (socket timeout 5 s):
            # that is a failure of the harness set-up, not of the code under test - try again with a new consumer
            for attempt in range(3):
                c = SdcConsumer(x_addr[0], sdc_definitions=self.provider.mdib.sdc_definitions, ssl_context_container=None,
                                validate=True, components=comp)
                try:
                    c.start_all()
                    break
                except Exception:  # noqa: BLE001
                    try:
                        c.stop_all(unsubscribe=False)
                    except Exception:  # noqa: BLE001
                        pass
                    if attempt == 2:
                        raise
                    time.sleep(1.0)
            self.consumers.append(c)
            if self.with_consumer_mdib:
                m = ConsumerMdib(c)
                m.init_mdib()
                self.consumer_mdibs.append(m)
        return self

    @property
    def pmdib(self):
        return self.provider.mdib

    @property
    def cmdib(self):
        return self.consumer_mdibs[0]

    def wait_synced(self, timeout=20.0):
        t0 = time.time()
        want = self.pmdib.mdib_version
        while time.time() - t0 < timeout:
            if all(m.mdib_version >= want for m in self.consumer_mdibs):
                return True
            time.sleep(0.01)
        return False

    def __exit__(self, *exc):
        for c in self.consumers:
            try:
                c.stop_all(unsubscribe=False)
            except Exception:  # noqa: BLE001
                pass
        try:
            self.provider.stop_all()
        except Exception:  # noqa: BLE001
            pass
        return False
