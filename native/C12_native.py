"""C12: [F] census of all property descriptors (defaults / implied values); [B] defaults of fresh instances are stable
under construct / parse / nested-write histories, for every container and data-type class."""
import copy
import inspect
import os
import types
from decimal import Decimal
from enum import Enum

from lxml import etree
from native.nativelib import Collector, tier
import sdc11073.definitions_sdc  # noqa: F401
from sdc11073.mdib import descriptorcontainers, statecontainers
from sdc11073.xml_types import (addressing_types, basetypes, dpws_types, eventing_types, mex_types, msg_types, pm_types,
                                wsd_types, xml_structure)

MODULES = (pm_types, msg_types, eventing_types, wsd_types, addressing_types, dpws_types, mex_types, descriptorcontainers,
           statecontainers)
IMMUTABLE = (str, int, float, bool, Decimal, Enum, type(None), tuple, frozenset, etree.QName, bytes)


def all_classes():
    seen = []
    for m in MODULES:
        for name, obj in vars(m).items():
            if inspect.isclass(obj) and obj.__module__ == m.__name__ and hasattr(obj, '_props'):
                seen.append(obj)
    return seen


def descriptors_of(cls):
    out = []
    for klass in inspect.getmro(cls):
        for name, obj in vars(klass).items():
            if isinstance(obj, xml_structure._XmlStructureBaseProperty):
                out.append((klass.__name__, name, obj))
    return out


def census():
    cases, bad = 0, []
    n_mutable_default = 0
    for cls in all_classes():
        for owner, name, d in descriptors_of(cls):
            cases += 1
            if d._implied_py_value is not None and not isinstance(d._implied_py_value, IMMUTABLE):
                bad.append({'key': f'mutable-implied-value:{owner}.{name}',
                            'detail': f'{owner}.{name}: implied value {d._implied_py_value!r} is mutable and shared by __get__'})
            if d._default_py_value is not None and not isinstance(d._default_py_value, IMMUTABLE):
                n_mutable_default += 1
    if cases < 400:
        bad.append({'key': 'census-too-small', 'detail': f'only {cases} descriptors found'})
    return cases, bad


def _construct(cls):
    try:
        sig = inspect.signature(cls.__init__)
        if issubclass(cls, statecontainers.AbstractStateContainer):
            d = types.SimpleNamespace(Handle='h', DescriptorVersion=0, coding=None)
            return cls(d)
        if issubclass(cls, descriptorcontainers.AbstractDescriptorContainer):
            return cls('h', 'p')
        required = [p for p in list(sig.parameters.values())[1:] if p.default is inspect.Parameter.empty
                    and p.kind in (p.POSITIONAL_ONLY, p.POSITIONAL_OR_KEYWORD)]
        if required:
            return None
        return cls()
    except Exception:  # noqa: BLE001
        return None


def _canon(obj, depth=0):
    """Canonical nested value of all container properties."""
    if depth > 6:
        return '...'
    if isinstance(obj, list):
        return [_canon(x, depth + 1) for x in obj]
    if hasattr(obj, '_props') and hasattr(obj, 'sorted_container_properties'):
        out = {}
        for name, _ in obj.sorted_container_properties():
            try:
                out[name] = _canon(getattr(obj, name), depth + 1)
            except Exception as ex:  # noqa: BLE001
                out[name] = f'<{type(ex).__name__}>'
        return (type(obj).__name__, out)
    if isinstance(obj, etree._Element):
        return etree.tostring(obj)
    return repr(obj)


def _mutate(obj, depth=0):
    """Write into every reachable mutable nested value (lists get an element, nested objects are recursed)."""
    n = 0
    if depth > 4 or not hasattr(obj, 'sorted_container_properties'):
        return n
    for name, _ in obj.sorted_container_properties():
        try:
            v = getattr(obj, name)
        except Exception:  # noqa: BLE001
            continue
        if isinstance(v, list):
            v.append('verif-mutation')
            n += 1
        elif hasattr(v, 'sorted_container_properties'):
            n += 1 + _mutate(v, depth + 1)
            for pname, _p in v.sorted_container_properties():
                try:
                    cur = getattr(v, pname)
                    if isinstance(cur, str) or cur is None:
                        object.__setattr__(v, getattr(type(v), pname)._local_var_name, 'verif-mutation')
                        n += 1
                        break
                except Exception:  # noqa: BLE001
                    continue
    return n


def default_stability():
    cases, bad = 0, []
    classes = all_classes()
    base = {}
    for cls in classes:
        inst = _construct(cls)
        if inst is not None and _canon(inst) == _canon(_construct(cls)):   # skip classes with generated ids (uuid)
            base[cls] = _canon(inst)
    # history: for every class construct, parse an empty node, copy, and write into everything reachable
    for cls in base:
        a = _construct(cls)
        try:
            tag = etree.QName('urn:verif', 'x')
            node = etree.Element(tag, attrib={'DescriptorHandle': 'h', 'Handle': 'h'})
            b = _construct(cls)
            b.update_from_node(node)
            _mutate(b)
        except Exception:  # noqa: BLE001
            pass
        _mutate(a)
        try:
            c = copy.copy(_construct(cls))
            _mutate(c)
            d = _construct(cls).mk_copy() if hasattr(a, 'mk_copy') else copy.deepcopy(_construct(cls))
            _mutate(d)
        except Exception:  # noqa: BLE001
            pass
    for cls, before in base.items():
        cases += 1
        after = _canon(_construct(cls))
        if after != before:
            bad.append({'key': f'default-changed:{cls.__name__}',
                        'detail': f'a freshly constructed {cls.__name__} differs after other instances were parsed / modified'})
    if cases < 100:
        bad.append({'key': 'too-few-classes', 'detail': f'only {cases} classes constructible'})
    return cases, bad


def copies_independent():
    """mk_copy / deepcopy of a populated instance: nested writes on the copy do not reach the original."""
    cases, bad = 0, []
    for cls in all_classes():
        a = _construct(cls)
        if a is None or not hasattr(a, 'mk_copy'):
            continue
        cases += 1
        before = _canon(a)
        c = a.mk_copy()
        _mutate(c)
        if _canon(a) != before:
            bad.append({'key': f'copy-aliases-original:{cls.__name__}', 'detail': f'{cls.__name__}.mk_copy(): writing into the copy changed the original'})
    return cases, bad


if __name__ == '__main__':
    c = Collector()
    c.run('C12.implied_values_immutable', 'F', census, bound='every property descriptor of every class with _props in 9 modules (reflection)')
    c.run('C12.default_stability', 'B', default_stability, bound='every constructible class: construct / parse empty node / copy / write into every reachable nested value, then compare a fresh instance')
    c.run('C12.copies_independent', 'B', copies_independent, bound='every constructible container class: mk_copy then nested writes')
    c.emit()
