"""C03 bounded stand-ins [B] on the real ProviderMdib: abort at every point, rejected calls, nested isolation."""
import copy
import os
import random
from decimal import Decimal

from native.nativelib import Collector, tier
from native import mdibtools as mt
from sdc11073.exceptions import ApiUsageError
from sdc11073.xml_types import pm_qnames as pm
from sdc11073.xml_types import pm_types

SEED = int(os.environ.get('VERIF_SEED', '0') or 0)


class Abort(Exception):
    pass


def _prepare(mdib):
    """Give a few states nested content so that nested paths exist."""
    h = mt.metric_handles(mdib)[:3]
    with mdib.metric_state_transaction() as mgr:
        for x in h:
            st = mgr.get_state(x)
            if st.MetricValue is None:
                st.mk_metric_value()
            try:
                st.MetricValue.Value = Decimal('1')
            except Exception:  # noqa: BLE001  (string metrics)
                st.MetricValue.Value = 'a'
            st.MetricValue.MetricQuality.Validity = pm_types.MeasurementValidity.VALID
    return h


def abort_everywhere():
    """Every transaction kind, exception raised after k API calls (k = 0..n): MDIB must be bit-identical afterwards."""
    cases, bad = 0, []
    mdib = mt.load()
    reports = []
    _prepare(mdib)
    import sdc11073.observableproperties as props
    props.strongbind(mdib, transaction=lambda tr: reports.append(tr))
    mh, ah, ch, oh = mt.metric_handles(mdib), mt.alert_handles(mdib), mt.component_handles(mdib), mt.operation_handles(mdib)
    ctx_descr = [d.Handle for d in mdib.descriptions.objects if d.is_context_descriptor]

    def metric_steps(mgr):
        st = mgr.get_state(mh[0]); yield
        st.MetricValue.Value = Decimal('42') if isinstance(st.MetricValue.Value, Decimal) else 'zz'; yield
        st.MetricValue.MetricQuality.Validity = pm_types.MeasurementValidity.INVALID; yield
        st2 = mgr.get_state(mh[1]); st2.ActivationState = pm_types.ComponentActivation.OFF; yield

    def alert_steps(mgr):
        st = mgr.get_state(ah[0]); yield
        st.ActivationState = pm_types.AlertActivation.PAUSED; yield

    def component_steps(mgr):
        st = mgr.get_state(ch[0]); yield
        st.OperatingHours = 77; yield

    def operational_steps(mgr):
        st = mgr.get_state(oh[0]); yield
        st.OperatingMode = pm_types.OperatingMode.NA; yield

    def context_steps(mgr):
        st = mgr.mk_context_state(ctx_descr[0], 'verif_ctx_1', set_associated=True); yield
        st.Validator.append(pm_types.InstanceIdentifier('r', extension_string='e')); yield
        mgr.disassociate_all(ctx_descr[0], ignored_handle='verif_ctx_1'); yield

    def descriptor_steps(mgr):
        ch_d = mdib.descriptions.NODETYPE.get(pm.ChannelDescriptor)[0]
        p = mgr.get_descriptor(ch_d.Handle); yield
        p.SafetyClassification = pm_types.SafetyClassification.MED_A; yield
        st = mgr.get_state(ch_d.Handle); st.OperatingHours = 5; yield
        mgr.remove_descriptor(mh[-1]); yield

    # entity interface: a committed context state is deleted / a new one written through write_entity, then abort
    with mdib.context_state_transaction() as mgr:
        mgr.mk_context_state(ctx_descr[0], 'verif_ctx_0', set_associated=True)

    def context_entity_steps(mgr):
        ent = mdib.entities.by_handle(ctx_descr[0]); yield
        hs = [h for h in ent.states if h == 'verif_ctx_0']
        if not hs:      # an earlier aborted round already lost the state (reported there)
            return
        del ent.states[hs[0]]
        mgr.write_entity(ent, [hs[0]]); yield
        ns = ent.new_state('verif_ctx_2')
        ns.ContextAssociation = pm_types.ContextAssociation.ASSOCIATED
        mgr.write_entity(ent, ['verif_ctx_2']); yield

    def metric_entity_steps(mgr):
        ent = mdib.entities.by_handle(mh[0]); yield
        ent.state.ActivationState = pm_types.ComponentActivation.STANDBY
        mgr.write_entity(ent); yield

    def descriptor_entity_steps(mgr):
        ent = mdib.entities.by_handle(mh[1]); yield
        ent.descriptor.SafetyClassification = pm_types.SafetyClassification.MED_C
        mgr.write_entity(ent); yield
        mgr.remove_entity(mdib.entities.by_handle(mh[-1])); yield

    kinds = [('context-entity', mdib.context_state_transaction, context_entity_steps),
             ('metric-entity', mdib.metric_state_transaction, metric_entity_steps),
             ('descriptor-entity', mdib.descriptor_transaction, descriptor_entity_steps),
             ('metric', mdib.metric_state_transaction, metric_steps), ('alert', mdib.alert_state_transaction, alert_steps),
             ('component', mdib.component_state_transaction, component_steps),
             ('operational', mdib.operational_state_transaction, operational_steps),
             ('context', mdib.context_state_transaction, context_steps),
             ('descriptor', mdib.descriptor_transaction, descriptor_steps)]
    for name, ctxmgr, steps in kinds:
        for k in range(0, 6):
            before = mt.snapshot(mdib)
            n_reports = len(reports)
            try:
                with ctxmgr() as mgr:
                    it = steps(mgr)
                    for _ in range(k):
                        try:
                            next(it)
                        except StopIteration:
                            break
                    raise Abort
            except Abort:
                pass
            cases += 1
            after = mt.snapshot(mdib)
            if after != before:
                bad.append({'key': f'abort-changes-mdib:{name}', 'detail': f'{name} transaction aborted after {k} steps changed the MDIB: {mt.diff(before, after)[:3]}'})
            if len(reports) != n_reports:
                bad.append({'key': f'abort-publishes:{name}', 'detail': f'{name} transaction aborted after {k} steps published a result'})
    # history: committed updates, committed removal, ABORTED re-creation, committed re-creation - the aborted attempt
    # must leave no trace (incl. the remembered versions), so the final re-creation continues the version counters
    victim = mh[-2]
    for _ in range(2):
        with mdib.metric_state_transaction() as mgr:
            mgr.get_state(victim).ActivationState = pm_types.ComponentActivation.OFF
    with mdib.descriptor_transaction() as mgr:
        mgr.get_descriptor(victim).SafetyClassification = pm_types.SafetyClassification.MED_B
    old_d = mdib.descriptions.handle.get_one(victim)
    old_s = mdib.states.descriptor_handle.get_one(victim)
    dv, sv, parent, cls_d = old_d.DescriptorVersion, old_s.StateVersion, old_d.parent_handle, type(old_d)
    with mdib.descriptor_transaction() as mgr:
        mgr.remove_descriptor(victim)

    def recreate(mgr):
        d = cls_d(handle=victim, parent_handle=parent)
        d.Type = pm_types.CodedValue('4711')
        d.Unit = pm_types.CodedValue('u')
        d.Resolution = Decimal('0.1')
        d.MetricCategory = pm_types.MetricCategory.MEASUREMENT
        d.MetricAvailability = pm_types.MetricAvailability.CONTINUOUS
        mgr.add_descriptor(d)
        mgr.add_state(mdib.data_model.mk_state_container(d))
    before = mt.snapshot(mdib)
    try:
        with mdib.descriptor_transaction() as mgr:
            recreate(mgr)
            raise Abort
    except Abort:
        pass
    cases += 1
    after = mt.snapshot(mdib)
    if after != before:
        bad.append({'key': 'abort-changes-mdib:recreate', 'detail': f'aborted re-creation of a removed descriptor changed the MDIB: {mt.diff(before, after)[:3]}'})
    try:
        with mdib.descriptor_transaction() as mgr:
            recreate(mgr)
        new_d = mdib.descriptions.handle.get_one(victim)
        new_s = mdib.states.descriptor_handle.get_one(victim)
        cases += 1
        if new_d.DescriptorVersion <= dv or new_s.StateVersion <= sv:
            bad.append({'key': 'abort-changes-mdib:recreate-versions', 'detail': f'after an aborted attempt the re-created {victim} restarts at DescriptorVersion {new_d.DescriptorVersion} / StateVersion {new_s.StateVersion} (before removal {dv} / {sv})'})
    except Exception as ex:  # noqa: BLE001
        bad.append({'key': 'recreate-failed', 'detail': repr(ex)[:200]})
    return cases, bad


def rejected_calls():
    """API calls the transaction rejects: MDIB untouched; the transaction can still commit its valid part."""
    cases, bad = 0, []
    mdib = mt.load()
    mh = mt.metric_handles(mdib)
    ah = mt.alert_handles(mdib)
    ctx_descr = [d.Handle for d in mdib.descriptions.objects if d.is_context_descriptor]
    calls = [
        ('metric: get unknown', mdib.metric_state_transaction, lambda m: m.get_state('nope'), (KeyError,)),
        ('metric: get twice', mdib.metric_state_transaction, lambda m: (m.get_state(mh[0]), m.get_state(mh[0])), (ValueError,)),
        ('metric: get alert state', mdib.metric_state_transaction, lambda m: m.get_state(ah[0]), (ApiUsageError,)),
        ('metric: empty handle', mdib.metric_state_transaction, lambda m: m.get_state(''), (ValueError,)),
        ('context: mk for non-context descriptor', mdib.context_state_transaction, lambda m: m.mk_context_state(mh[0]), (ValueError,)),
        ('context: get unknown', mdib.context_state_transaction, lambda m: m.get_context_state('nope'), (KeyError,)),
        ('descriptor: get unknown', mdib.descriptor_transaction, lambda m: m.get_descriptor('nope'), (KeyError,)),
        ('descriptor: remove twice', mdib.descriptor_transaction, lambda m: (m.remove_descriptor(mh[0]), m.remove_descriptor(mh[0])), (ValueError,)),
        ('descriptor: state without descriptor', mdib.descriptor_transaction, lambda m: m.get_state(mh[0]), (ApiUsageError,)),
        ('descriptor: add existing', mdib.descriptor_transaction, lambda m: m.add_descriptor(copy.deepcopy(mdib.descriptions.handle.get_one(mh[0]))), (ValueError,)),
    ]
    for name, ctxmgr, call, exc in calls:
        cases += 1
        before = mt.snapshot(mdib)
        raised = None
        try:
            with ctxmgr() as mgr:
                try:
                    call(mgr)
                except exc as ex:
                    raised = ex
                    raise
        except exc:
            pass
        except Exception as ex:  # noqa: BLE001
            bad.append({'key': f'rejected-call-wrong-exception:{name}', 'detail': f'{name}: {ex!r}'})
            continue
        if raised is None:
            bad.append({'key': f'invalid-call-accepted:{name}', 'detail': f'{name}: accepted'})
        after = mt.snapshot(mdib)
        if after != before:
            bad.append({'key': f'rejected-call-changes-mdib:{name}', 'detail': f'{name}: {mt.diff(before, after)[:3]}'})
    return cases, bad


def rejected_calls_handled():
    """A rejected API call whose exception the application handles INSIDE the transaction body has no effect of its own:
    when nothing else was done, the commit is empty (MDIB, lookups, versions untouched, no transaction result)."""
    cases, bad = 0, []
    mdib = mt.load()
    mh = mt.metric_handles(mdib)
    ah = mt.alert_handles(mdib)
    ch = mt.component_handles(mdib)
    oh = mt.operation_handles(mdib)
    ctx_descr = sorted(d.Handle for d in mdib.descriptions.objects if d.is_context_descriptor)
    # an entity that became stale: read, then its descriptor is removed
    stale = {}
    with mdib.descriptor_transaction() as tr:
        for kind, hs in (('metric', mh), ('alert', ah), ('component', ch), ('operational', oh)):
            stale[kind] = mdib.entities.by_handle(hs[-1])
            if kind in ('metric', 'operational'):
                tr.remove_descriptor(hs[-1])
    results = []
    mt_observe = getattr(mdib, 'transaction', None)
    kinds = {'metric': (mdib.metric_state_transaction, mh), 'alert': (mdib.alert_state_transaction, ah),
             'component': (mdib.component_state_transaction, ch), 'operational': (mdib.operational_state_transaction, oh)}
    multi = mdib.entities.by_handle(ctx_descr[0])
    calls = []
    for kind, (ctxmgr, hs) in kinds.items():
        other = next(k for k in kinds if k != kind)
        good = lambda hs=hs: mdib.entities.by_handle(hs[0])   # noqa: E731
        good2 = lambda hs=hs: mdib.entities.by_handle(hs[1])  # noqa: E731
        wrong = lambda other=other: mdib.entities.by_handle(kinds[other][1][0])   # noqa: E731
        calls.append((f'{kind}: write_entities [valid, multi-state]', ctxmgr, lambda m, g=good: m.write_entities([g(), multi])))
        calls.append((f'{kind}: write_entities [valid, wrong kind]', ctxmgr, lambda m, g=good, w=wrong: m.write_entities([g(), w()])))
        calls.append((f'{kind}: write_entities [valid, valid, wrong kind]', ctxmgr,
                      lambda m, g=good, g2=good2, w=wrong: m.write_entities([g(), g2(), w()])))
        if kind in ('metric', 'operational'):
            calls.append((f'{kind}: write_entities [valid, entity of a removed descriptor]', ctxmgr,
                          lambda m, g=good, k=kind: m.write_entities([g(), stale[k]])))
        calls.append((f'{kind}: write_entity wrong kind', ctxmgr, lambda m, w=wrong: m.write_entity(w())))
        calls.append((f'{kind}: get unknown', ctxmgr, lambda m: m.get_state('nope')))
    calls.append(('context: mk for non-context descriptor', mdib.context_state_transaction, lambda m: m.mk_context_state(mh[0])))
    calls.append(('context: get unknown', mdib.context_state_transaction, lambda m: m.get_context_state('nope')))
    calls.append(('descriptor: get unknown', mdib.descriptor_transaction, lambda m: m.get_descriptor('nope')))
    calls.append(('descriptor: add existing', mdib.descriptor_transaction,
                  lambda m: m.add_descriptor(copy.deepcopy(mdib.descriptions.handle.get_one(mh[0])))))
    for name, ctxmgr, call in calls:
        cases += 1
        before = mt.snapshot(mdib)
        raised = None
        try:
            with ctxmgr() as mgr:
                try:
                    call(mgr)
                except Exception as ex:  # noqa: BLE001  (the application handles the rejection and goes on)
                    raised = ex
        except Exception as ex:  # noqa: BLE001
            bad.append({'key': f'handled-rejection-breaks-the-commit:{name}', 'detail': f'{name}: commit raised {ex!r}'[:300]})
            continue
        if raised is None:
            bad.append({'key': f'invalid-call-accepted:{name}', 'detail': f'{name}: accepted'})
            continue
        after = mt.snapshot(mdib)
        if after != before:
            bad.append({'key': f'rejected-call-has-an-effect:{name.split(":")[1].strip()}',
                        'detail': f'{name}: rejected with {type(raised).__name__}, but the commit changed {mt.diff(before, after)[:3]}'})
    return cases, bad


def nested_isolation():
    """Objects handed out (transaction getters, entity getters, transaction results) are private at every depth."""
    cases, bad = 0, []
    mdib = mt.load()
    h = _prepare(mdib)[0]
    results = []
    import sdc11073.observableproperties as props
    props.strongbind(mdib, transaction=lambda tr: results.append(tr))

    def mdib_text():
        return mt.canon(mdib.states.descriptor_handle.get_one(h), mdib)
    # 1. getter copy, modified but transaction aborted (nested path)
    base = mdib_text()
    try:
        with mdib.metric_state_transaction() as mgr:
            st = mgr.get_state(h)
            st.MetricValue.MetricQuality.Validity = pm_types.MeasurementValidity.QUESTIONABLE
            st.MetricValue.Annotation.append(pm_types.Annotation(pm_types.CodedValue('1')))
            cases += 1
            if mdib_text() != base:
                bad.append({'key': 'getter-copy-aliases-mdib', 'detail': 'nested change on a transaction copy is visible in the MDIB before commit'})
            raise Abort
    except Abort:
        pass
    # 2. entity getter
    cases += 1
    ent = mdib.entities.by_handle(h)
    descr_text = mt.canon(mdib.descriptions.handle.get_one(h), mdib)
    ent.state.MetricValue.MetricQuality.Validity = pm_types.MeasurementValidity.CALIBRATION_ONGOING
    ent.descriptor.Type.Code = 'changed'
    if mdib_text() != base or mt.canon(mdib.descriptions.handle.get_one(h), mdib) != descr_text:
        bad.append({'key': 'entity-aliases-mdib', 'detail': 'changing an entity changes the MDIB without a transaction'})
    # 2b. entities stay private copies after entity.update() (single state and context states, nested members)
    from sdc11073.xml_types import pm_qnames as _pm
    try:
        cases += 1
        ent2 = mdib.entities.by_handle(h)
        with mdib.metric_state_transaction() as mgr:
            mgr.get_state(h).MetricValue.MetricQuality.Validity = pm_types.MeasurementValidity.VALID
        ent2.update()
        snap = mt.snapshot(mdib)
        ent2.state.MetricValue.MetricQuality.Validity = pm_types.MeasurementValidity.INVALID
        ent2.state.MetricValue.Annotation.append(pm_types.Annotation(pm_types.CodedValue('9')))
        ent2.descriptor.Type.Code = 'changed again'
        if mt.snapshot(mdib) != snap:
            bad.append({'key': 'updated-entity-aliases-mdib', 'detail': f'after entity.update() a nested change of the entity changes the MDIB: {mt.diff(snap, mt.snapshot(mdib))[:2]}'})
        pd = [d for d in mdib.descriptions.objects if d.NODETYPE == _pm.PatientContextDescriptor]
        if pd:
            cases += 1
            with mdib.context_state_transaction() as mgr:
                cst = mgr.mk_context_state(pd[0].Handle, set_associated=True)
                cst.CoreData.Middlename.append('M1')
                ch = cst.Handle
            cent = mdib.entities.by_handle(pd[0].Handle)
            with mdib.context_state_transaction() as mgr:
                mgr.get_context_state(ch).CoreData.Givenname = 'G'
                other = mgr.mk_context_state(pd[0].Handle)
                other.CoreData.Middlename.append('M2')
            cent.update()
            snap = mt.snapshot(mdib)
            for st_ in cent.states.values():
                st_.CoreData.Middlename.append('leak')
            if mt.snapshot(mdib) != snap:
                bad.append({'key': 'updated-entity-aliases-mdib', 'detail': f'after MultiStateEntity.update() a nested change of an entity state changes the MDIB: {mt.diff(snap, mt.snapshot(mdib))[:2]}'})
    except Exception as ex:  # noqa: BLE001
        bad.append({'key': 'entity-update-raises', 'detail': f'entity.update(): {ex!r}'})
    # 3. earlier published results are not changed by later transactions
    with mdib.metric_state_transaction() as mgr:
        st = mgr.get_state(h)
        st.MetricValue.MetricQuality.Validity = pm_types.MeasurementValidity.INVALID
    published = results[-1].metric_updates[0]
    published_text = mt.canon(published, mdib)
    with mdib.metric_state_transaction() as mgr:
        st = mgr.get_state(h)
        st.MetricValue.MetricQuality.Validity = pm_types.MeasurementValidity.VALID
        st.MetricValue.Annotation.append(pm_types.Annotation(pm_types.CodedValue('2')))
    cases += 1
    if mt.canon(published, mdib) != published_text:
        bad.append({'key': 'published-result-changed-later', 'detail': 'a later transaction changed the state copy published by an earlier commit'})
    # 4. modifying a published result does not change the MDIB
    cases += 1
    now = mdib_text()
    results[-1].metric_updates[0].MetricValue.MetricQuality.Validity = pm_types.MeasurementValidity.NA
    if mdib_text() != now:
        bad.append({'key': 'result-aliases-mdib', 'detail': 'changing a transaction result changes the MDIB'})
    # 5. known limitation: the object handed out by get_state becomes the table member at commit
    cases += 1
    with mdib.metric_state_transaction() as mgr:
        st = mgr.get_state(h)
    now = mdib_text()
    st.MetricValue.MetricQuality.Validity = pm_types.MeasurementValidity.OVERFLOW
    if mdib_text() != now:
        bad.append({'key': 'post-commit-alias', 'detail': 'the object returned by get_state is the MDIB table member after the commit: '
                    'changing it after the transaction changes the MDIB without a commit'})
    return cases, bad


def commit_failure():
    """An observer / report sender that raises during commit: the tables are already updated (known limitation)."""
    mdib = mt.load()
    h = mt.metric_handles(mdib)[0]
    import sdc11073.observableproperties as props

    def boom(tr):
        raise RuntimeError('sender failed')
    props.strongbind(mdib, transaction=boom)
    before = mt.snapshot(mdib)
    bad = []
    try:
        with mdib.metric_state_transaction() as mgr:
            st = mgr.get_state(h)
            st.ActivationState = pm_types.ComponentActivation.OFF
    except RuntimeError:
        after = mt.snapshot(mdib)
        if after != before:
            bad.append({'key': 'commit-failure-after-table-update',
                        'detail': 'an exception raised by a report sender/observer during commit propagates to the '
                                  'application although the MDIB (version and tables) is already changed'})
    return 1, bad


if __name__ == '__main__':
    c = Collector()
    c.run('C03.abort_everywhere', 'B', abort_everywhere, bound='6 transaction kinds x abort after 0..5 API calls / nested writes; full MDIB + index snapshot compared')
    c.run('C03.rejected_calls', 'B', rejected_calls, bound='10 rejected API calls over 3 transaction kinds')
    c.run('C03.rejected_calls_handled', 'B', rejected_calls_handled, bound='27 rejected API calls (write_entities with an invalid entity that is not the first one, wrong kind, stale entity, unknown handles) handled inside the body of 6 transaction kinds')
    c.run('C03.nested_isolation', 'B', nested_isolation, bound='5 aliasing scenarios on nested attribute paths')
    c.run('C03.commit_failure', 'B', commit_failure, bound='observer raising during commit')
    c.emit()
