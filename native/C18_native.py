"""C18 bounded stand-ins [B]: Decimal / duration / date-time code bottoms out in decimal, re and datetime."""
import datetime
import os
import random
from decimal import Decimal

from native.nativelib import Collector, tier
from sdc11073.xml_types import dataconverters as dc
from sdc11073.xml_types import isoduration as iso

SEED = int(os.environ.get('VERIF_SEED', '0') or 0)


def digit_patterns(k, rnd, extra):
    pats = {'9' * k, '1' + '0' * (k - 1), '1' * k, ('12' * k)[:k], ('90' * k)[:k]}
    if k > 1:
        pats.add('1' + '0' * (k - 2) + '1')
        pats.add('5' + '0' * (k - 1))
    for _ in range(extra):
        pats.add(str(rnd.randint(1, 9)) + ''.join(str(rnd.randint(0, 9)) for _ in range(k - 1)))
    return sorted(pats)


def decimals():
    rnd = random.Random(SEED)
    extra = 2 if tier() == 'quick' else 12
    cases, bad = 0, []
    for sign in (0, 1):
        for k in range(1, 19):
            for digs in digit_patterns(k, rnd, extra):
                for e in range(-18, 19):
                    d = Decimal((sign, tuple(int(c) for c in digs), e))
                    cases += 1
                    try:
                        x = dc.DecimalConverter.to_xml(d)
                        if 'E' in x or 'e' in x:
                            bad.append({'key': 'decimal-exponent-written', 'detail': f'{d!r} -> {x!r}'})
                            continue
                        back = dc.DecimalConverter.to_py(x)
                        again = dc.DecimalConverter.to_xml(back)
                    except Exception as ex:  # noqa: BLE001
                        bad.append({'key': 'decimal-conversion-raises', 'detail': f'{d!r}: {ex!r}'})
                        continue
                    if len(bad) > 50:
                        return cases, bad
                    if 'E' in x or 'e' in x:
                        bad.append({'key': 'decimal-exponent-written', 'detail': f'{d!r} -> {x!r}'})
                    elif back != d:
                        bad.append({'key': 'decimal-value-changed', 'detail': f'{d!r} -> {x!r} -> {back!r}'})
                    elif again != x:
                        bad.append({'key': 'decimal-unstable', 'detail': f'{d!r} -> {x!r} -> {again!r}'})
    for z in ('0', '-0', '0.0', '0E-18', '0E+18'):
        cases += 1
        x = dc.DecimalConverter.to_xml(Decimal(z))
        if Decimal(x) != 0 or 'E' in x.upper():
            bad.append({'key': 'decimal-zero', 'detail': f'{z} -> {x!r}'})
    return cases, bad


def durations():
    rnd = random.Random(SEED + 1)
    n = 3000 if tier() == 'quick' else 40000
    cases, bad = 0, []
    vals = [0, 1, 59, 60, 61, 3599, 3600, 3601, 86399, 86400, 86401, 0.000001, 0.5, 59.999999, 3599.999999,
            Decimal('0.000001'), Decimal('1.5'), Decimal('86400.000001'), 10 ** 9, 86399999999999 - 1]
    for _ in range(n):
        kind = rnd.randrange(4)
        if kind == 0:
            vals.append(rnd.randrange(0, 10 ** rnd.randrange(1, 10)))
        elif kind == 1:
            vals.append(Decimal(rnd.randrange(0, 10 ** 15)) / Decimal(10 ** 6))
        elif kind == 2:
            vals.append(rnd.randrange(0, 10 ** 9) + rnd.randrange(0, 10 ** 6) / 10 ** 6)
        else:
            vals.append(rnd.uniform(0, 10 ** rnd.randrange(0, 9)))
    for v in vals:
        cases += 1
        s = iso.duration_string(v)
        back = iso.parse_duration(s)
        if float(v) < 2 ** 32 and abs(Decimal(repr(back)) - Decimal(str(v))) > Decimal('0.0000015'):
            bad.append({'key': 'duration-roundtrip', 'detail': f'{v!r} -> {s!r} -> {back!r}'})
        if iso.duration_string(back) != s and abs(float(v)) < 2 ** 32:
            bad.append({'key': 'duration-unstable', 'detail': f'{v!r} -> {s!r} -> {iso.duration_string(back)!r}'})
    for illegal in ('P1D', 'PT', '1S', 'PT1.S', 'PT-1S', 'P1Y', 'PT1H1H', '', 'PT1M1H', ' PT1S'):
        cases += 1
        try:
            r = iso.parse_duration(illegal)
            bad.append({'key': 'duration-illegal-accepted', 'detail': f'{illegal!r} -> {r!r}'})
        except ValueError:
            pass
    return cases, bad


def duration_lexical():
    """XML -> Python over the lexical space of the constrained xsd:duration (PT[nH][nM][n[.f]S]): the parsed value is the
    exact rational value of the lexical form within the documented microsecond resolution, whatever the number of
    fraction digits, leading zeros or absent components."""
    from fractions import Fraction
    rnd = random.Random(SEED + 11)
    n = 1500 if tier() == 'quick' else 30000
    cases, bad = 0, []
    fracs = ['1', '5', '05', '001', '123456', '000001', '999999', '1234567', '0000001', '0000005', '9999995', '12345678',
             '123456789', '010000000', '000000000', '500000000', '999999999999', '100000000000', '0000000000001']
    ints = [None, '0', '1', '9', '00', '007', '59', '60', '61', '100', '3600', '86400', '99999']
    forms = []
    for h in (None, '0', '1', '25', '0001'):
        for m in (None, '0', '5', '59', '90'):
            for sec in ints:
                for f in ([None] + fracs if sec is not None else [None]):
                    forms.append((h, m, sec, f))
    for _ in range(n):
        digs = lambda k: ''.join(rnd.choice('0123456789') for _ in range(k))   # noqa: E731
        forms.append((rnd.choice([None, digs(rnd.randrange(1, 5))]), rnd.choice([None, digs(rnd.randrange(1, 4))]),
                      digs(rnd.randrange(1, 7)), rnd.choice([None, digs(rnd.randrange(1, 14))])))
    for h, m, sec, f in forms:
        if h is None and m is None and sec is None:
            continue
        cases += 1
        text = 'PT' + (f'{h}H' if h is not None else '') + (f'{m}M' if m is not None else '') \
               + ((sec + (f'.{f}' if f is not None else '') + 'S') if sec is not None else '')
        exact = Fraction(int(h or 0) * 3600 + int(m or 0) * 60 + int(sec or 0)) + (Fraction(int(f), 10 ** len(f)) if f else 0)
        try:
            got = iso.parse_duration(text)
        except Exception as exc:  # noqa: BLE001
            bad.append({'key': 'duration-lexical-rejected', 'detail': f'{text!r}: {type(exc).__name__} {exc}'})
            continue
        # documented resolution: one microsecond (timedelta); beyond 2^32 s the float result itself is coarser
        tol = Fraction(101, 100_000_000) + abs(exact) * Fraction(1, 2 ** 50)
        if abs(Fraction(got) - exact) > tol:
            bad.append({'key': 'duration-lexical-value', 'detail': f'{text!r} parsed as {got!r}, lexical value is {float(exact)!r}'})
        if len(bad) > 8:
            break
    return cases, bad


def datetimes():
    rnd = random.Random(SEED + 2)
    cases, bad = 0, []
    tzs = [None, datetime.timezone.utc, datetime.timezone(datetime.timedelta(hours=14)),
           datetime.timezone(datetime.timedelta(hours=-14)), datetime.timezone(datetime.timedelta(hours=5, minutes=30)),
           datetime.timezone(datetime.timedelta(minutes=-45))]
    years = [-10000, -1, 0, 1, 999, 1000, 1999, 2024, 9999, 10000, 123456]
    seconds = [0.0, 1.0, 9.999999, 10.0, 59.0, 59.999999, 30.5, 0.000001, 1e-7]
    for y in years:
        for tz in tzs:
            forms = [dict(year=y), dict(year=y, month=1), dict(year=y, month=12, day=31),
                     dict(year=y, month=2, day=1, end_of_day=True)]
            for s in seconds:
                forms.append(dict(year=y, month=6, day=15, hour=rnd.choice([0, 9, 10, 23]),
                                  minute=rnd.choice([0, 9, 59]), second=s))
            for f in forms:
                cases += 1
                info = iso.XsdDateInformation(tz_info=tz, **f)
                text = str(info)
                back = iso.parse_date_time(text)
                same = all(getattr(back, k) == getattr(info, k) for k in
                           ('year', 'month', 'day', 'hour', 'minute', 'end_of_day')) and \
                    (back.second == info.second or (back.second is not None and abs(back.second - info.second) < 1e-6)) \
                    and ((back.tz_info is None) == (info.tz_info is None)) and \
                    (back.tz_info is None or back.tz_info.utcoffset(None) == info.tz_info.utcoffset(None))
                if not same:
                    bad.append({'key': 'datetime-roundtrip', 'detail': f'{info!r} -> {text!r} -> {back!r}'})
                elif str(back) != text:
                    bad.append({'key': 'datetime-unstable', 'detail': f'{text!r} -> {str(back)!r}'})
    # the time-zone dimension exhaustively: every offset the xsd value space has (-14:00 .. +14:00, whole minutes),
    # on a date and on a dateTime
    for off in range(-840, 841):
        tz = datetime.timezone(datetime.timedelta(minutes=off))
        want = 'Z' if off == 0 else '%s%02d:%02d' % ('-' if off < 0 else '+', abs(off) // 60, abs(off) % 60)
        for f in (dict(year=1969, month=7, day=20), dict(year=1969, month=7, day=20, hour=20, minute=17, second=40.5)):
            cases += 1
            info = iso.XsdDateInformation(tz_info=tz, **f)
            text = str(info)
            back = iso.parse_date_time(text)
            if not text.endswith(want):
                bad.append({'key': 'timezone-lexical', 'detail': f'offset {off} min written as {text!r}, expected suffix {want!r}'})
            elif back.tz_info is None or back.tz_info.utcoffset(None) != tz.utcoffset(None):
                bad.append({'key': 'timezone-roundtrip', 'detail': f'offset {off} min: {text!r} read back as {back!r}'})
    for illegal in ('2024-13-01', '2024-00-10', '2024-01-32', '2024-01-01T24:00:01', '2024-01-01T25:00:00',
                    '24-01-01', '2024-01-01T10:00', '2024-01-01+15:00', '2024-01-01+14:30', '02024', '2024-1-1',
                    '2024-01-01T10:60:00', '2024-01-01T10:00:60'):
        cases += 1
        try:
            r = iso.parse_date_time(illegal)
            bad.append({'key': 'datetime-illegal-accepted', 'detail': f'{illegal!r} -> {r!r}'})
        except ValueError:
            pass
    return cases, bad


def enums_and_ints():
    cases, bad = 0, []
    from sdc11073.xml_types import pm_types
    import enum
    for name in dir(pm_types):
        obj = getattr(pm_types, name)
        if isinstance(obj, type) and issubclass(obj, enum.Enum) and obj is not enum.Enum:
            conv = dc.EnumConverter(obj)
            for member in obj:
                cases += 1
                x = conv.to_xml(member)
                if conv.to_py(x) is not member:
                    bad.append({'key': 'enum-roundtrip', 'detail': f'{member!r} -> {x!r} -> {conv.to_py(x)!r}'})
            cases += 1
            try:
                r = conv.to_py('\x00not-a-member')
                bad.append({'key': 'enum-illegal-accepted', 'detail': f'{name}: {r!r}'})
            except (ValueError, KeyError, TypeError):
                pass
    for illegal in ('1.5', 'abc', '', '1e3', '0x10'):
        cases += 1
        try:
            r = dc.IntegerConverter.to_py(illegal)
            bad.append({'key': 'integer-illegal-accepted', 'detail': f'{illegal!r} -> {r!r}'})
        except ValueError:
            pass
    return cases, bad


if __name__ == '__main__':
    c = Collector()
    c.run('C18.decimal_enum', 'B', decimals,
          bound='sign x 1..18 digits x structured digit patterns (+ seeded random) x exponent -18..18')
    c.run('C18.duration_lexical', 'B', duration_lexical, bound='all combinations of 5 hour x 5 minute x 13 second x 20 fraction lexical forms + seeded random digit strings (up to 13 fraction digits)')
    c.run('C18.duration_enum', 'B', durations, bound='boundary values + seeded random ints/decimals/floats below 1e12 s')
    c.run('C18.datetime_enum', 'B', datetimes, bound='11 years x 6 time zones x all 4 lexical forms x 9 second values + 13 illegal forms; ALL 1681 time-zone offsets of the xsd value space (-14:00..+14:00 in minutes) on a date and a dateTime')
    c.run('C18.enum_int_lexical', 'B', enums_and_ints, bound='every member of every Enum class in pm_types; 5 illegal integer forms')
    c.emit()
