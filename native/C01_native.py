"""C01 [B]: real provider + real consumer over 127.0.0.1, seeded transaction histories of every kind; after every
transaction the two MDIBs are compared as wholes (semantic equality) and the consumer's change notifications are
compared with the transaction result of the provider."""
import os
import sys

from native.nativelib import Collector, tier, xml_canon
import native.loopback  # noqa: F401  (puts the repository root on sys.path for tests.mockstuff)

SEED = int(os.environ.get('VERIF_SEED', '0') or 0)
OBS = {'metrics_by_handle': 'metric_updates', 'alert_by_handle': 'alert_updates', 'component_by_handle': 'comp_updates',
       'operation_by_handle': 'op_updates', 'context_by_handle': 'ctxt_updates', 'waveform_by_handle': 'rt_updates'}
DESCR_OBS = {'new_descriptors_by_handle': 'descr_created', 'updated_descriptors_by_handle': 'descr_updated',
             'deleted_descriptors_by_handle': 'descr_deleted'}


def _val_eq(a, b):
    from lxml import etree
    if isinstance(a, float) and isinstance(b, float):
        return abs(a - b) <= 0.0005 + 1e-9 * abs(a)
    if isinstance(a, (list, tuple)) and isinstance(b, (list, tuple)):
        return len(a) == len(b) and all(_val_eq(x, y) for x, y in zip(a, b))
    if hasattr(a, 'sorted_container_properties') and hasattr(b, 'sorted_container_properties'):
        return type(a) is type(b) and not container_diff(a, b)
    if isinstance(a, etree._Element) and isinstance(b, etree._Element):
        return xml_canon(a) == xml_canon(b)
    try:
        return a == b
    except Exception:  # noqa: BLE001
        return repr(a) == repr(b)


def container_diff(p, c):
    """Names of members whose (implied-value-resolved) python values differ; clock time excluded."""
    from sdc11073.xml_types import xml_structure as xs
    out = []
    for name, d in p.sorted_container_properties():
        if isinstance(d, xs.CurrentTimestampAttributeProperty):
            continue
        if not _val_eq(getattr(p, name), getattr(c, name)):
            out.append(name)
    return out


def mdib_diff(pm_, cm):
    """Differences between provider MDIB and consumer MDIB (empty list = mirror)."""
    out = []
    for f in ('mdib_version', 'sequence_id', 'instance_id'):
        if getattr(pm_, f) != getattr(cm, f):
            out.append(f'{f}: provider {getattr(pm_, f)!r} consumer {getattr(cm, f)!r}')
    pd = {d.Handle: d for d in pm_.descriptions.objects}
    cd = {d.Handle: d for d in cm.descriptions.objects}
    if set(pd) != set(cd):
        out.append(f'descriptor handles differ: only provider {sorted(set(pd) - set(cd))[:3]} only consumer {sorted(set(cd) - set(pd))[:3]}')
    if len(cm.descriptions.objects) != len(cd):
        out.append('consumer holds duplicate descriptor handles')
    for h in set(pd) & set(cd):
        if type(pd[h]) is not type(cd[h]):
            out.append(f'descriptor {h}: type {type(pd[h]).__name__} vs {type(cd[h]).__name__}')
            continue
        if pd[h].parent_handle != cd[h].parent_handle:
            out.append(f'descriptor {h}: parent {pd[h].parent_handle} vs {cd[h].parent_handle}')
        d = container_diff(pd[h], cd[h])
        if d:
            out.append(f'descriptor {h}: {d[0]} provider {getattr(pd[h], d[0])!r} consumer {getattr(cd[h], d[0])!r}')
    ps = {s.DescriptorHandle: s for s in pm_.states.objects}
    cs = {s.DescriptorHandle: s for s in cm.states.objects}
    if set(ps) != set(cs):
        out.append(f'state handles differ: only provider {sorted(set(ps) - set(cs))[:3]} only consumer {sorted(set(cs) - set(ps))[:3]}')
    if len(cm.states.objects) != len(cs):
        out.append('consumer holds duplicate states')
    for h in set(ps) & set(cs):
        d = container_diff(ps[h], cs[h])
        if d:
            out.append(f'state {h}: {d[0]} provider {getattr(ps[h], d[0])!r} consumer {getattr(cs[h], d[0])!r}')
    pc = {s.Handle: s for s in pm_.context_states.objects}
    cc = {s.Handle: s for s in cm.context_states.objects}
    if set(pc) != set(cc):
        out.append(f'context state handles differ: only provider {sorted(set(pc) - set(cc))[:3]} only consumer {sorted(set(cc) - set(pc))[:3]}')
    for h in set(pc) & set(cc):
        d = container_diff(pc[h], cc[h])
        if d:
            out.append(f'context state {h}: {d[0]} provider {getattr(pc[h], d[0])!r} consumer {getattr(cc[h], d[0])!r}')
    # secondary lookups of the consumer agree with its own objects (C11 on the consumer side)
    for table, key in ((cm.descriptions, 'Handle'), (cm.states, 'DescriptorHandle')):
        for o in table.objects:
            got = table._idx_defs['handle' if key == 'Handle' else 'descriptor_handle'].get(getattr(o, key))
            if got is not o and got != [o]:
                out.append(f'consumer lookup by {key} {getattr(o, key)} does not return the stored object')
    return out


def mirror(mdib_file, n_steps, seeds, kinds=None):
    from sdc11073 import observableproperties as properties
    from native.histories import History, KINDS
    from native.loopback import Loop
    cases, bad = 0, []
    for seed in seeds:
        with Loop(mdib_file) as lp:
            notes = {}
            for obs in list(OBS) + list(DESCR_OBS):
                properties.strongbind(lp.cmdib, **{obs: (lambda v, _o=obs: notes.setdefault(_o, []).append(v))})
            results = []
            properties.strongbind(lp.pmdib, transaction=results.append)
            with lp.pmdib.mdib_lock:
                d0 = mdib_diff(lp.pmdib, lp.cmdib)
            if d0:
                bad.append({'key': 'initial-mdib-differs', 'detail': f'{mdib_file} after init_mdib: {d0[:2]}'})
                continue
            h = History(lp, seed)
            for i in range(n_steps):
                with lp.pmdib.mdib_lock:
                    notes.clear()
                    del results[:]
                kind, detail = h.step(kinds[i % len(kinds)] if kinds else None)
                cases += 1
                if not lp.wait_synced():
                    bad.append({'key': f'consumer-not-synced:{kind}', 'detail': f'seed {seed} step {i} {kind} {detail}: consumer at {lp.cmdib.mdib_version}, provider at {lp.pmdib.mdib_version}'})
                    break
                # compare while holding the provider's mdib_lock: the role provider commits alert-system self checks from
                # its own thread; a commit sends its reports inside the lock and the consumer applies them before the send
                # returns, so with the lock held both sides are quiescent at the same version
                with lp.pmdib.mdib_lock:
                    d = mdib_diff(lp.pmdib, lp.cmdib)
                if d:
                    bad.append({'key': f'mirror-differs:{kind}', 'detail': f'{mdib_file} seed {seed} step {i} {kind} {detail}: {d[:2]}'})
                    break
                # notifications name exactly the changed entities (a step may commit more than one transaction, e.g.
                # set_location: the union over the step's transactions is compared)
                if not any(tr.has_descriptor_updates for tr in results):
                    # (states re-sent with a description modification are not separate state notifications)
                    for obs, attr in OBS.items():
                        want = sorted({(s.Handle if s.is_context_state else s.DescriptorHandle) for tr in results for s in getattr(tr, attr)})
                        got = sorted({k for v in notes.get(obs, []) for k in v})
                        if want != got:
                            bad.append({'key': f'notification-differs:{obs}', 'detail': f'{mdib_file} seed {seed} step {i} {kind}: {obs} named {got[:4]}, the transaction changed {want[:4]}'})
                for obs, attr in DESCR_OBS.items():
                    want = sorted({d_.Handle for tr in results for d_ in getattr(tr, attr)})
                    got = sorted({k for v in notes.get(obs, []) for k in v})
                    if want != got:
                        bad.append({'key': f'notification-differs:{obs}', 'detail': f'{mdib_file} seed {seed} step {i} {kind}: {obs} named {got[:4]}, the transaction changed {want[:4]}'})
                if len(bad) > 4:
                    break
        if len(bad) > 4:
            break
    return cases, bad


def mirror_single():
    n, seeds = (24, [SEED, SEED + 1]) if tier() == 'quick' else (80, [SEED + i for i in range(6)])
    return mirror('70041_MDIB_Final.xml', n, seeds)


def mirror_two_mds():
    n, seeds = (16, [SEED]) if tier() == 'quick' else (60, [SEED + i for i in range(4)])
    return mirror('mdib_two_mds.xml', n, seeds)


def mirror_every_kind_once():
    from native.histories import KINDS
    return mirror('70041_MDIB_Final.xml', len(KINDS) * 2, [SEED + 100], kinds=KINDS)


if __name__ == '__main__':
    c = Collector()
    c.run_parallel([
        ('C01.mirror_every_kind', 'B', mirror_every_kind_once, 'each transaction kind of native/histories.py twice in fixed order, whole-MDIB comparison and notification comparison after each'),
        ('C01.mirror_single_mds', 'B', mirror_single, 'quick: 2 seeds x 24 random transactions; thorough: 6 x 80 (70041_MDIB_Final.xml)'),
        ('C01.mirror_two_mds', 'B', mirror_two_mds, 'quick: 1 seed x 16 random transactions; thorough: 4 x 60 (mdib_two_mds.xml)'),
    ])
    c.emit()
