"""Native replays for C19 obligations (run under /venv/bin/python against the tree the VCs came from)."""


def redirect(inputs):
    """A TLS endpoint answers a posted message with '307 Location: http://<plain server>/...': the real asynchronous
    soap client (the provider's default for notifications), created with a TLS client context, must not deliver the
    message to the plain server."""
    import asyncio
    import http.server
    import logging
    import ssl
    import threading
    import sdc11073.definitions_sdc as d
    from sdc11073 import loghelper
    from sdc11073.pysoap.soapclient_async import SoapClientAsync
    logging.getLogger('sdc').setLevel(logging.CRITICAL)
    seen = []

    class Plain(http.server.BaseHTTPRequestHandler):
        def do_POST(self):  # noqa: N802
            n = int(self.headers.get('content-length') or 0)
            seen.append((self.path, self.rfile.read(n)[:40]))
            self.send_response(200)
            self.send_header('Content-Length', '0')
            self.end_headers()

        def log_message(self, *a):
            pass
    plain = http.server.ThreadingHTTPServer(('127.0.0.1', 0), Plain)
    threading.Thread(target=plain.serve_forever, daemon=True).start()

    class Redir(http.server.BaseHTTPRequestHandler):
        def do_POST(self):  # noqa: N802
            n = int(self.headers.get('content-length') or 0)
            self.rfile.read(n)
            self.send_response(307)
            self.send_header('Location', f'http://127.0.0.1:{plain.server_port}/elsewhere')
            self.send_header('Content-Length', '0')
            self.end_headers()

        def log_message(self, *a):
            pass
    tls = http.server.ThreadingHTTPServer(('127.0.0.1', 0), Redir)
    sctx = ssl.SSLContext(ssl.PROTOCOL_TLS_SERVER)
    sctx.verify_mode = ssl.CERT_NONE
    sctx.set_ciphers('ALL:@SECLEVEL=0')
    tls.socket = sctx.wrap_socket(tls.socket, server_side=True)
    threading.Thread(target=tls.serve_forever, daemon=True).start()
    cctx = ssl.SSLContext(ssl.PROTOCOL_TLS_CLIENT)
    cctx.check_hostname = False
    cctx.verify_mode = ssl.CERT_NONE
    cctx.set_ciphers('ALL:@SECLEVEL=0')

    class Msg:
        p_msg = None

        def serialize(self, **k):
            return b'<?xml version="1.0" encoding="utf-8"?><notification-with-patient-data/>'

    class Reader:
        def read_received_message(self, x):
            raise RuntimeError('not needed')

    async def run():
        c = SoapClientAsync(f'127.0.0.1:{tls.server_port}', 5, loghelper.get_logger_adapter('sdc.replay'), cctx,
                            d.SdcV1Definitions, Reader())
        try:
            await c.async_post_message_to('/notify', Msg())
        except Exception:  # noqa: BLE001  (an error answer is fine, a plaintext delivery is not)
            pass
        await c.async_close()
    try:
        asyncio.run(run())
    finally:
        plain.shutdown()
        tls.shutdown()
    if seen:
        return {'violates': True, 'witness_key': 'redirect-followed-in-plaintext',
                'detail': f'the client with a TLS context followed "307 Location: http://..." and posted the message over plain http: {seen[:1]!r}'}
    return {'violates': False, 'detail': 'redirect not followed'}
