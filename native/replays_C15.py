"""Native replay oracles for C15 (run the real NetworkingThread code)."""
import itertools
import random
import time
import types
from unittest import mock

from sdc11073.wsdiscovery import networkingthread as nt


def _run(params, init_draw, gap_draw, t0, quit_set=False):
    puts = []
    fake = types.SimpleNamespace(
        _quit_send_event=types.SimpleNamespace(is_set=lambda: quit_set),
        _send_queue=types.SimpleNamespace(put=puts.append),
        _logger=types.SimpleNamespace(warning=lambda *a, **k: None, debug=lambda *a, **k: None),
        _EnqueuedMessage=nt.NetworkingThread._EnqueuedMessage)
    p = nt._UdpRepeatParams(**params)
    msg = object()
    with mock.patch.object(random, 'randint', lambda a, b: min(max(init_draw, a), b)), \
            mock.patch.object(random, 'randrange', lambda a, b: min(max(gap_draw, a), b - 1)), \
            mock.patch.object(time, 'time', lambda: t0):
        nt.NetworkingThread._repeated_enqueue_msg(fake, msg, p)
    return puts, msg


def spec_violation(params, puts, msg, t0, quit_set):
    """The property text, evaluated on the produced queue entries. Returns None if it holds."""
    eps = 1e-9
    if quit_set:
        return None if not puts else 'entries enqueued although the send thread is stopped'
    r = params['repeat']
    if len(puts) != r + 1:
        return f'{len(puts)} transmissions instead of {r + 1}'
    ts = [e.send_time for e in puts]
    if not (-eps <= ts[0] - t0 <= params['max_initial_delay_ms'] / 1000 + eps):
        return f'initial delay {ts[0] - t0}'
    gaps = [b - a for a, b in zip(ts, ts[1:])]
    if gaps and not (params['min_delay_ms'] / 1000 - eps <= gaps[0] < params['max_delay_ms'] / 1000 + eps):
        return f'first gap {gaps[0]} outside window'
    upper = params['upper_delay_ms'] / 1000
    for i in range(1, len(gaps)):
        want = min(2 * gaps[i - 1], upper)
        if abs(gaps[i] - want) > 1e-6:
            return f'gap {i + 1} is {gaps[i]:.6f}s, expected min(2*{gaps[i - 1]:.6f}, {upper}) = {want:.6f}s'
    for i, e in enumerate(puts):
        if e.repeat != i + 1 or e.msg.created_message is not msg:
            return f'entry {i}: repeat index {e.repeat} / wrong message'
    return None


def schedule(inputs):
    cands = []
    p = {k: int(inputs[k]) for k in ('max_initial_delay_ms', 'repeat', 'min_delay_ms', 'max_delay_ms',
                                      'upper_delay_ms') if k in inputs}
    if len(p) == 5 and p['min_delay_ms'] < p['max_delay_ms'] and p['repeat'] >= 0 and p['max_initial_delay_ms'] >= 0:
        cands.append((p, int(inputs.get('init_draw', 0)), int(inputs.get('gap_draw', p['min_delay_ms'])),
                      float(inputs.get('t0', 0.0)), 'solver model'))
        for rep in (2, 4):
            p2 = dict(p, repeat=max(p['repeat'], rep))
            # the draws are clamped into the range the code actually requests: values beyond the legal window only
            # survive when the code asks for a wider range than the property allows
            for g in (p['min_delay_ms'], p['max_delay_ms'] - 1, p['max_delay_ms'], p['upper_delay_ms'] - 1, 10 ** 6):
                cands.append((p2, 0, g, 0.0, 'solver model, more repeats'))
    # neighbours: the parameter sets the code itself defines, extreme draws
    import dataclasses
    for nm in ('UNICAST_REPEAT_PARAMS', 'MULTICAST_REPEAT_PARAMS'):
        real = dataclasses.asdict(getattr(nt, nm))
        for i, g in itertools.product((0, real['max_initial_delay_ms']),
                                      (real['min_delay_ms'], (real['min_delay_ms'] + real['max_delay_ms']) // 2,
                                       real['max_delay_ms'] - 1, real['max_delay_ms'], real['upper_delay_ms'] - 1, 10 ** 6, -1)):
            cands.append((real, i, g, 1000.0, nm))
    tried = 0
    for params, init, gap, t0, origin in cands:
        tried += 1
        for q in (False, True):
            puts, msg = _run(params, init, gap, t0, q)
            bad = spec_violation(params, puts, msg.created_message if hasattr(msg, 'created_message') else msg, t0, q) \
                if False else _check(params, puts, msg, t0, q)
            if bad:
                return {'violates': True, 'detail': bad, 'witness_key': 'schedule',
                        'input': {'params': params, 'init_draw': init, 'gap_draw': gap, 't0': t0, 'quit': q,
                                  'origin': origin}}
    return {'violates': False, 'detail': f'{tried} candidate inputs satisfy the schedule property'}


def _check(params, puts, msg, t0, q):
    # the real function wraps nothing: entries carry the OutgoingMessage passed in
    class _E:
        pass
    wrapped = []
    for e in puts:
        w = _E()
        w.send_time, w.repeat = e.send_time, e.repeat
        w.msg = types.SimpleNamespace(created_message=e.msg)
        wrapped.append(w)
    return spec_violation(params, wrapped, msg, t0, q)
