"""Minimal reader of the bundled XSD files: per complexType the flattened element sequence and attribute set.

Resolves extension bases, named groups, attribute groups, element/attribute refs.  Used as the independent oracle for
the declarative property tables ([F] checks over all classes)."""
import glob
import os

from lxml import etree

XS = 'http://www.w3.org/2001/XMLSchema'


def _q(tag):
    return f'{{{XS}}}{tag}'


class XsdModel:
    def __init__(self, xsd_dir):
        self.types = {}      # (ns, name) -> (node, schema_root)
        self.groups = {}
        self.attr_groups = {}
        self.anonymous = {}
        self.simple = {}
        self.elements = {}   # global elements (ns, name) -> node
        for path in sorted(glob.glob(os.path.join(xsd_dir, '*.xsd'))):
            root = etree.parse(path).getroot()
            tns = root.get('targetNamespace')
            for n in root:
                if not isinstance(n.tag, str):
                    continue
                name = n.get('name')
                if n.tag == _q('complexType'):
                    self.types[(tns, name)] = (n, root)
                elif n.tag == _q('simpleType'):
                    self.simple[(tns, name)] = (n, root)
                elif n.tag == _q('group'):
                    self.groups[(tns, name)] = (n, root)
                elif n.tag == _q('attributeGroup'):
                    self.attr_groups[(tns, name)] = (n, root)
                elif n.tag == _q('element'):
                    self.elements[(tns, name)] = (n, root)
            # anonymous complex types: registered under the name of the element that carries them (first wins;
            # named types take precedence)
            for el in root.iter(_q('element')):
                inline = el.find(_q('complexType'))
                if inline is not None and el.get('name'):
                    self.anonymous.setdefault((tns, el.get('name')), (inline, root))
        for k, v in self.anonymous.items():
            self.types.setdefault(k, v)

    @staticmethod
    def _resolve(node, qname_text, root):
        if ':' in qname_text:
            prefix, local = qname_text.split(':', 1)
            return node.nsmap.get(prefix), local
        return node.nsmap.get(None) or root.get('targetNamespace'), qname_text

    def content(self, key):
        """-> (elements, attributes, has_any_element, has_any_attribute); elements = list of (qname, min, max) in order."""
        node, root = self.types[key]
        elems, attrs = [], {}
        flags = {'any': False, 'anyattr': False, 'text': False}
        self._walk_type(node, root, elems, attrs, flags)
        return elems, attrs, flags

    def _walk_type(self, node, root, elems, attrs, flags):
        tns = root.get('targetNamespace')
        qualified = root.get('elementFormDefault') == 'qualified'
        for ch in node:
            if not isinstance(ch.tag, str):
                continue
            tag = etree.QName(ch.tag).localname
            if tag in ('complexContent', 'simpleContent'):
                if tag == 'simpleContent':
                    flags['text'] = True
                for ext in ch:
                    if isinstance(ext.tag, str) and etree.QName(ext.tag).localname in ('extension', 'restriction'):
                        base = self._resolve(ext, ext.get('base'), root)
                        if base in self.types:
                            bnode, broot = self.types[base]
                            self._walk_type(bnode, broot, elems, attrs, flags)
                        elif base[0] != XS:
                            flags['text'] = True
                        else:
                            flags['text'] = True
                        self._walk_type(ext, root, elems, attrs, flags)
            elif tag in ('sequence', 'choice', 'all'):
                self._walk_particle(ch, root, elems, flags, in_choice=(tag == 'choice'))
            elif tag == 'group':
                g = self._resolve(ch, ch.get('ref'), root)
                gnode, groot = self.groups[g]
                self._walk_type(gnode, groot, elems, attrs, flags)
            elif tag == 'attribute':
                if ch.get('ref'):
                    ns, local = self._resolve(ch, ch.get('ref'), root)
                    name = f'{{{ns}}}{local}'
                else:
                    name = ch.get('name')
                    if ch.get('form') == 'qualified' or root.get('attributeFormDefault') == 'qualified':
                        name = f'{{{tns}}}{name}'
                attrs[name] = {'use': ch.get('use', 'optional'), 'default': ch.get('default'), 'node': ch, 'root': root}
            elif tag == 'attributeGroup':
                g = self._resolve(ch, ch.get('ref'), root)
                gnode, groot = self.attr_groups[g]
                self._walk_type(gnode, groot, elems, attrs, flags)
            elif tag == 'anyAttribute':
                flags['anyattr'] = True

    def _walk_particle(self, node, root, elems, flags, in_choice=False):
        tns = root.get('targetNamespace')
        qualified = root.get('elementFormDefault') == 'qualified'
        outer_min = node.get('minOccurs', '1')
        for ch in node:
            if not isinstance(ch.tag, str):
                continue
            tag = etree.QName(ch.tag).localname
            if tag == 'element':
                if ch.get('ref'):
                    ns, local = self._resolve(ch, ch.get('ref'), root)
                else:
                    ns, local = (tns if qualified or ch.get('form') == 'qualified' else None), ch.get('name')
                mn = ch.get('minOccurs', '1')
                if in_choice or outer_min == '0':
                    mn = '0'
                elems.append((f'{{{ns}}}{local}' if ns else local, int(mn), ch.get('maxOccurs', '1'), ch, root))
            elif tag in ('sequence', 'choice', 'all'):
                self._walk_particle(ch, root, elems, flags, in_choice=in_choice or tag == 'choice' or outer_min == '0')
            elif tag == 'group':
                g = self._resolve(ch, ch.get('ref'), root)
                gnode, groot = self.groups[g]
                for sub in gnode:
                    if isinstance(sub.tag, str) and etree.QName(sub.tag).localname in ('sequence', 'choice', 'all'):
                        self._walk_particle(sub, groot, elems, flags, in_choice=in_choice)
            elif tag == 'any':
                flags['any'] = True
                elems.append(('##any', 0, ch.get('maxOccurs', '1'), ch, root))

    # -- simple types --------------------------------------------------------------------------------------------
    def decl_simple(self, decl, root):
        """Simple-type facts of an element / attribute declaration:
        {'base': xsd builtin local name | None, 'enums': set | None, 'list': bool, 'union': bool}; None if complex."""
        if decl.get('ref'):
            key = self._resolve(decl, decl.get('ref'), root)
            tab = self.elements if etree.QName(decl.tag).localname == 'element' else None
            if tab is None or key not in tab:
                return None
            decl, root = tab[key]
        inline = decl.find(_q('simpleType'))
        if inline is not None:
            return self._simple(inline, root)
        t = decl.get('type')
        if t is None:
            return None
        key = self._resolve(decl, t, root)
        return self._simple_by_key(key)

    def _simple_by_key(self, key):
        if key[0] == XS:
            return {'base': key[1], 'enums': None, 'list': False, 'union': False}
        if key in self.simple:
            n, r = self.simple[key]
            return self._simple(n, r)
        if key in self.types:
            # complex type with simple content: text type = base of the extension
            n, r = self.types[key]
            sc = n.find(_q('simpleContent'))
            if sc is not None:
                for ext in sc:
                    if isinstance(ext.tag, str) and ext.get('base'):
                        return self._simple_by_key(self._resolve(ext, ext.get('base'), r))
        return None

    def _simple(self, node, root):
        for ch in node:
            if not isinstance(ch.tag, str):
                continue
            tag = etree.QName(ch.tag).localname
            if tag == 'restriction':
                enums = {e.get('value') for e in ch.findall(_q('enumeration'))} or None
                if ch.get('base'):
                    info = self._simple_by_key(self._resolve(ch, ch.get('base'), root))
                else:
                    info = self._simple(ch.find(_q('simpleType')), root)
                info = dict(info) if info else {'base': None, 'enums': None, 'list': False, 'union': False}
                if enums:
                    info['enums'] = enums
                return info
            if tag == 'list':
                if ch.get('itemType'):
                    info = self._simple_by_key(self._resolve(ch, ch.get('itemType'), root))
                else:
                    info = self._simple(ch.find(_q('simpleType')), root)
                info = dict(info) if info else {'base': None, 'enums': None, 'list': False, 'union': False}
                info['list'] = True
                return info
            if tag == 'union':
                members = []
                for mt in (ch.get('memberTypes') or '').split():
                    members.append(self._simple_by_key(self._resolve(ch, mt, root)))
                for st in ch.findall(_q('simpleType')):
                    members.append(self._simple(st, root))
                enums = set()
                for m in members:
                    if m and m['enums']:
                        enums |= m['enums']
                bases = {m['base'] for m in members if m}
                return {'base': bases.pop() if len(bases) == 1 else None, 'enums': enums or None, 'list': False,
                        'union': True, 'open': any(m is None or not m['enums'] for m in members)}
        return None
