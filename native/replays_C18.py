"""Native replay oracles for C18 (run the real converters)."""
from sdc11073.xml_types import dataconverters as dc


def ts_xml_py_xml(inputs):
    n0 = int(inputs.get('n', 0))
    cands = [n0] + list(range(max(0, n0 - 50), n0 + 50)) + list(range(0, 5000))
    tried = 0
    for n in cands:
        if not (0 <= n < 2 ** 53 // 1000):
            continue
        tried += 1
        s = str(n)
        back = dc.TimestampConverter.to_xml(dc.TimestampConverter.to_py(s))
        if back != s:
            return {'violates': True, 'witness_key': 'ts-xml-py-xml',
                    'detail': f'TimestampConverter: {s!r} -> {dc.TimestampConverter.to_py(s)!r} -> {back!r}',
                    'input': {'n': n}}
    return {'violates': False, 'detail': f'{tried} millisecond values round-trip'}


def ts_py_xml_py(inputs):
    import random
    rnd = random.Random(int(inputs.get('seed', 0)))
    p0 = float(inputs.get('p', 0.0))
    cands = [p0] + [p0 + k * 1e-4 for k in range(-20, 20)] + [rnd.uniform(0, 2e9) for _ in range(2000)] + \
        [k / 1000 + 0.0004999 for k in range(2000)]
    for p in cands:
        if not (0 <= p <= 2 ** 40):
            continue
        back = dc.TimestampConverter.to_py(dc.TimestampConverter.to_xml(p))
        if not abs(back - p) < 0.001:
            return {'violates': True, 'witness_key': 'ts-py-xml-py', 'detail': f'{p!r} -> {back!r}', 'input': {'p': p}}
    return {'violates': False, 'detail': f'{len(cands)} timestamps stay within 1 ms'}


def bool_lexical(inputs):
    s0 = inputs.get('xml_value', 'yes')
    for s in [s0, 'yes', 'TRUE', '', 'tru', '2', ' true']:
        if s in ('true', 'false', '1', '0'):
            continue
        try:
            r = dc.BooleanConverter.to_py(s)
        except (ValueError, TypeError):
            continue
        return {'violates': True, 'witness_key': f'illegal-form->{r!r}',
                'detail': f'BooleanConverter.to_py({s!r}) returns {r!r} instead of rejecting the lexical form',
                'input': {'xml_value': s}}
    for s, want in (('true', True), ('1', True), ('false', False), ('0', False)):
        try:
            r = dc.BooleanConverter.to_py(s)
        except Exception as ex:  # noqa: BLE001
            return {'violates': True, 'witness_key': f'legal-form-rejected:{s}', 'detail': repr(ex)}
        if r is not want:
            return {'violates': True, 'witness_key': f'legal-form-wrong:{s}', 'detail': f'{s!r} -> {r!r}'}
    return {'violates': False, 'detail': 'illegal forms rejected, legal forms mapped'}
