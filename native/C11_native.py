"""C11 bounded stand-in [B]: random operation sequences on the four real table configurations vs a linear scan."""
import os
import random
import types

from native.nativelib import Collector, tier
from sdc11073 import multikey
from sdc11073.mdib import mdibbase

SEED = int(os.environ.get('VERIF_SEED', '0') or 0)


class Obj:
    is_multi_state = False

    def __init__(self, **kw):
        self.__dict__.update(kw)

    def __repr__(self):
        return f'Obj({self.__dict__})'


def scan_check(table, key_funcs, tag):
    """Every index lookup == scan; back references == stored keys; no empty entries."""
    objs = table._objects
    for name, (fn, none_ok, multi) in key_funcs.items():
        idx = table._idx_defs[name]
        expect = {}
        for o in objs:
            k = fn(o)
            if k is None and not none_ok:
                continue
            for kk in (k if multi else [k]):
                expect.setdefault(kk, []).append(o)
        for k, lst in idx.items():
            if not lst:
                return f'{tag}: empty entry {name}[{k!r}]'
            if sorted(map(id, lst)) != sorted(map(id, expect.get(k, []))):
                return f'{tag}: index {name}[{k!r}] has {len(lst)} objects, scan finds {len(expect.get(k, []))}'
        for k in expect:
            if k not in idx:
                return f'{tag}: scan finds {len(expect[k])} objects for {name}={k!r}, index has no entry'
    if set(table._object_ids.keys()) != {id(o) for o in objs}:
        return f'{tag}: back-reference table has {len(table._object_ids)} objects, object set has {len(objs)}'
    return None


def snapshot(table):
    return (frozenset(map(id, table._objects)),
            {n: {k: tuple(map(id, v)) for k, v in idx.items()} for n, idx in table._idx_defs.items()},
            {k: tuple((id(r.index_dict), r.key) for r in v) for k, v in table._object_ids.items()})


CONFIGS = {
    'descriptions': (mdibbase.DescriptorsLookup, {
        'handle': (lambda o: o.Handle, True, False), 'parent_handle': (lambda o: o.parent_handle, True, False),
        'NODETYPE': (lambda o: o.NODETYPE, True, False),
        'condition_signaled': (lambda o: o.ConditionSignaled, False, False),
        'source': (lambda o: o.Source, False, True)}, 'Handle'),
    'states': (mdibbase.StatesLookup, {
        'descriptor_handle': (lambda o: o.DescriptorHandle, True, False),
        'NODETYPE': (lambda o: o.NODETYPE, False, False)}, 'DescriptorHandle'),
    'context_states': (mdibbase.MultiStatesLookup, {
        'descriptor_handle': (lambda o: o.DescriptorHandle, True, False), 'handle': (lambda o: o.Handle, False, False),
        'NODETYPE': (lambda o: o.NODETYPE, False, False)}, 'Handle'),
}


def mk_obj(rnd, n_handles):
    h = f'h{rnd.randrange(n_handles)}'
    return Obj(Handle=h, DescriptorHandle=rnd.choice([h, f'd{rnd.randrange(3)}']),
               parent_handle=rnd.choice([None, 'p0', 'p1']), NODETYPE=rnd.choice([None, 'T1', 'T2']),
               ConditionSignaled=rnd.choice([None, 'c0', 'c1']),
               Source=rnd.choice([None, [], ['m0'], ['m0', 'm1'], ['m1', 'm1']]),
               DescriptorVersion=0, StateVersion=0)


def run_sequences(name, n_seq, n_ops):
    cls, key_funcs, unique_attr = CONFIGS[name]
    rnd = random.Random(SEED * 1000 + hash(name) % 1000)
    cases, bad = 0, []
    for s in range(n_seq):
        table = cls()
        pool = []
        for step in range(n_ops):
            cases += 1
            op = rnd.choice(['add', 'add', 'add_no_lock', 'adds', 'remove', 'remove_no_lock', 'removes', 'update',
                             'update_no_lock', 'updates', 'clear', 'dup_add', 'remove_absent', 'dup_update', 'readd'])
            before = snapshot(table)
            try:
                if op in ('add', 'add_no_lock'):
                    o = mk_obj(rnd, 6)
                    pool.append(o)
                    getattr(table, 'add_object' if op == 'add' else 'add_object_no_lock')(o)
                elif op == 'adds':
                    os_ = [mk_obj(rnd, 40) for _ in range(rnd.randrange(3))]
                    pool.extend(os_)
                    table.add_objects(os_)
                elif op == 'readd' and table._objects:
                    # the very object that is already stored is offered again: nothing happens (no error, no change)
                    o = rnd.choice(list(table._objects))
                    how = rnd.choice(['add_object', 'add_object_no_lock', 'add_objects'])
                    try:
                        getattr(table, how)([o] if how == 'add_objects' else o)
                    except Exception as exc:  # noqa: BLE001
                        bad.append({'key': f'{name}:re-adding-a-stored-object-raises', 'detail': f'{name}: {how}(stored object) raised {type(exc).__name__}: {exc}'})
                    if snapshot(table) != before:
                        bad.append({'key': f'{name}:re-adding-a-stored-object-changes-table',
                                    'detail': f'{name}: {how} of an object that is already stored changed the table (sequence {s}, step {step})'})
                        break
                    continue
                elif op == 'dup_add' and table._objects:
                    src = rnd.choice(list(table._objects))
                    o = mk_obj(rnd, 6)
                    setattr(o, unique_attr, getattr(src, unique_attr))
                    try:
                        table.add_object(o)
                        bad.append({'key': f'{name}:duplicate-unique-key-accepted', 'detail': f'{name}: second object with {unique_attr}={getattr(src, unique_attr)!r} accepted'})
                    except KeyError:
                        if snapshot(table) != before:
                            bad.append({'key': f'{name}:failed-add-changed-table',
                                        'detail': f'{name}: rejected add_object (duplicate {unique_attr}) changed the table'})
                    continue
                elif op == 'dup_update' and len(table._objects) > 1:
                    # rejected update: the unique attribute is changed in place to a value another stored object has;
                    # the caller then takes the change back and re-indexes again (or removes the object) - afterwards
                    # every lookup must agree with a scan again
                    o, src = rnd.sample(list(table._objects), 2)
                    old = getattr(o, unique_attr)
                    setattr(o, unique_attr, getattr(src, unique_attr))
                    how = rnd.choice(['update_object', 'update_object_no_lock', 'update_objects'])
                    try:
                        getattr(table, how)([o] if how == 'update_objects' else o)
                        bad.append({'key': f'{name}:duplicate-unique-key-accepted', 'detail': f'{name}: {how} accepted a second object with {unique_attr}={getattr(src, unique_attr)!r}'})
                        break
                    except KeyError:
                        pass
                    setattr(o, unique_attr, old)
                    try:
                        if rnd.random() < 0.5:
                            table.update_object(o)
                        else:
                            table.remove_object(o)
                        err = scan_check(table, key_funcs, f'{name} after a rejected {how} was taken back (sequence {s}, step {step})')
                    except Exception as exc:  # noqa: BLE001
                        err = f'{name}: object is stuck after a rejected {how} (duplicate {unique_attr}): {type(exc).__name__} {exc}'
                    if err:
                        bad.append({'key': f'{name}:rejected-update-leaves-object-stuck', 'detail': err})
                        break
                    continue
                elif op in ('remove', 'remove_no_lock') and table._objects:
                    o = rnd.choice(list(table._objects))
                    getattr(table, 'remove_object' if op == 'remove' else 'remove_object_no_lock')(o)
                elif op == 'removes' and table._objects:
                    table.remove_objects(rnd.sample(list(table._objects), min(2, len(table._objects))))
                elif op == 'remove_absent':
                    table.remove_object(mk_obj(rnd, 6))
                    if snapshot(table) != before:
                        bad.append({'key': f'{name}:remove-absent-changed-table', 'detail': f'{name}: removing an object that is not in the table changed it'})
                elif op in ('update', 'update_no_lock', 'updates') and table._objects:
                    o = rnd.choice(list(table._objects))
                    # change indexed attributes in place (not the unique one: that could legitimately be rejected)
                    o.parent_handle = rnd.choice([None, 'p0', 'p1', 'p2'])
                    o.ConditionSignaled = rnd.choice([None, 'c0', 'c2'])
                    o.Source = rnd.choice([None, ['m2'], ['m0', 'm2']])
                    o.NODETYPE = rnd.choice([None, 'T1', 'T3'])
                    if op == 'updates':
                        table.update_objects([o])
                    else:
                        getattr(table, 'update_object' if op == 'update' else 'update_object_no_lock')(o)
                elif op == 'clear' and rnd.random() < 0.2:
                    table.clear()
            except KeyError:
                # a random add may collide with a unique key: a single insertion must be a no-op
                # (a batch may have inserted its earlier members; then only consistency is required)
                if op == 'adds':
                    err = scan_check(table, key_funcs, f'{name} after rejected batch add')
                    if err:
                        bad.append({'key': f'{name}:lookup-differs-from-scan:{op}', 'detail': err})
                        break
                    continue
                if snapshot(table) != before:
                    bad.append({'key': f'{name}:failed-add-changed-table',
                                'detail': f'{name}: rejected {op} (duplicate unique key) changed the table'})
                continue
            err = scan_check(table, key_funcs, f'{name} after {op} (sequence {s}, step {step})')
            if err:
                bad.append({'key': f'{name}:lookup-differs-from-scan:{op}', 'detail': err})
                break
        if len(bad) > 5:
            break
    return cases, bad


def subscriptions_table():
    """The subscription table configuration of SubscriptionsManagerBase (two unique indices, one plain)."""
    import uuid
    from sdc11073.provider import subscriptionmgr_base as sb
    rnd = random.Random(SEED + 7)
    fake = types.SimpleNamespace()
    table = multikey.MultiKeyLookup()
    table.add_index('dispatch_identifier', multikey.UIndexDefinition(
        lambda obj: sb._mk_dispatch_identifier(obj.reference_parameters, obj.path_suffix)))
    table.add_index('identifier', multikey.UIndexDefinition(lambda obj: obj.identifier_uuid.hex))
    table.add_index('netloc', multikey.IndexDefinition(lambda obj: obj.notify_to_url.netloc))
    key_funcs = {'dispatch_identifier': (lambda o: sb._mk_dispatch_identifier(o.reference_parameters, o.path_suffix), True, False),
                 'identifier': (lambda o: o.identifier_uuid.hex, True, False),
                 'netloc': (lambda o: o.notify_to_url.netloc, True, False)}
    cases, bad = 0, []
    for step in range(400 if tier() == 'quick' else 4000):
        cases += 1
        if rnd.random() < 0.6 or not table._objects:
            o = Obj(reference_parameters=rnd.choice([[], [types.SimpleNamespace(text=f'r{rnd.randrange(20)}')]]), path_suffix=f's{rnd.randrange(50)}', identifier_uuid=uuid.UUID(int=rnd.randrange(50)),
                    notify_to_url=types.SimpleNamespace(netloc=f'host{rnd.randrange(3)}'))
            before = snapshot(table)
            try:
                table.add_object(o)
            except KeyError:
                if snapshot(table) != before:
                    bad.append({'key': 'subscriptions:failed-add-changed-table', 'detail': 'rejected subscription insert changed the table'})
                    break
        else:
            table.remove_object(rnd.choice(list(table._objects)))
        err = scan_check(table, key_funcs, f'subscriptions step {step}')
        if err:
            bad.append({'key': 'subscriptions:lookup-differs-from-scan', 'detail': err})
            break
    return cases, bad


if __name__ == '__main__':
    c = Collector()
    n_seq, n_ops = (60, 60) if tier() == 'quick' else (600, 120)
    for nm in CONFIGS:
        c.run(f'C11.model_based.{nm}', 'B', lambda nm=nm: run_sequences(nm, n_seq, n_ops),
              bound=f'{n_seq} seeded random sequences x {n_ops} operations (add/update+reindex/remove/clear/failed add/rejected update)')
    c.run('C11.model_based.subscriptions', 'B', subscriptions_table, bound='seeded random add/remove sequence')
    c.emit()
