"""Native replays for C20 obligations (run under /venv/bin/python against the tree the VCs came from)."""


def tw2i(inputs):
    """The rank table of the real _tw2i: xs..xxl ranked 0..5, a missing width above every one of them."""
    from sdc11073.provider.porttypes.localizationservice import _tw2i
    widths = ('xs', 's', 'm', 'l', 'xl', 'xxl')
    findings = []
    for n, w in enumerate(widths):
        try:
            got = _tw2i(w)
        except Exception as ex:  # noqa: BLE001
            got = repr(ex)
        if got != n:
            findings.append(f'_tw2i({w!r}) == {got!r}, expected {n}')
    try:
        none_rank = _tw2i(None)
    except Exception as ex:  # noqa: BLE001
        none_rank = repr(ex)
    if not isinstance(none_rank, int) or none_rank <= len(widths) - 1:
        findings.append(f'_tw2i(None) == {none_rank!r}: a text without TextWidth satisfies the constraint '
                        f'"TextWidth <= {widths[-1]}" (and every narrower one that ranks >= {none_rank!r})')
    if findings:
        return {'violates': True, 'witness_key': 'text-width-rank-table', 'detail': '; '.join(findings)}
    return {'violates': False, 'detail': 'rank table as specified'}
