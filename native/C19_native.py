"""C19 [B]: real provider and real consumer over 127.0.0.1 with TLS contexts, every configuration of the bound:
every soap client created, every connection opened and every address placed in a serialised message is recorded.

TLS configured (provider) / enforced (consumer)  =>  no client without a context, no plaintext connection, no
"http://host:port" address in any message of start-up, subscribe, renew, get, operation invocation, unsubscribe,
SubscriptionEnd.  The configuration without TLS is the control: the same recorders must then see plaintext (otherwise
the recorders are blind).  [B] urlparse scheme axiom of C19.consumer_base_url on sampled urls."""
import os
import random
import re
import ssl
import sys
import time
from decimal import Decimal

from native.nativelib import Collector, tier

SEED = int(os.environ.get('VERIF_SEED', '1') or 1)
ADDR = re.compile(rb'(https?)://(\[[0-9a-fA-F:]+\]|[A-Za-z0-9_.-]+):(\d+)')


def _contexts():
    """Anonymous-cipher TLS contexts (no key material needed), the set-up of the repository's own TLS test."""
    from sdc11073 import certloader
    c = ssl.SSLContext(ssl.PROTOCOL_TLS_CLIENT)
    s = ssl.SSLContext(ssl.PROTOCOL_TLS_SERVER)
    c.check_hostname = False
    c.verify_mode = ssl.CERT_NONE
    s.verify_mode = ssl.CERT_NONE
    c.set_ciphers('ALL:@SECLEVEL=0')
    s.set_ciphers('ALL:@SECLEVEL=0')
    return certloader.SSLContextContainer(client_context=c, server_context=s)


class Recorder:
    """Process-wide recorders on the real classes (installed in the harness process only)."""

    def __init__(self):
        self.clients = []      # (class name, netloc, has ssl context, creator role)
        self.connections = []  # (kind, netloc)
        self.addresses = []    # (scheme, host, port, message head)
        self.role = 'setup'
        self._undo = []

    def __enter__(self):
        import http.client
        from sdc11073.pysoap import soapclient, soapclient_async, msgfactory
        rec = self

        def wrap_init(cls):
            orig = cls.__init__

            def init(self_, netloc, *a, **k):
                ctx = k.get('ssl_context', a[2] if len(a) > 2 else None)
                rec.clients.append((cls.__name__, netloc, ctx is not None))
                return orig(self_, netloc, *a, **k)
            cls.__init__ = init
            self._undo.append(lambda: setattr(cls, '__init__', orig))
        wrap_init(soapclient.SoapClient)
        wrap_init(soapclient_async.SoapClientAsync)

        orig_connect = http.client.HTTPConnection.connect

        def connect(self_):
            rec.connections.append(('https' if isinstance(self_, http.client.HTTPSConnection) else 'http',
                                    f'{self_.host}:{self_.port}'))
            return orig_connect(self_)
        http.client.HTTPConnection.connect = connect
        self._undo.append(lambda: setattr(http.client.HTTPConnection, 'connect', orig_connect))
        orig_sconnect = http.client.HTTPSConnection.connect

        def sconnect(self_):
            rec.connections.append(('https', f'{self_.host}:{self_.port}'))
            return orig_sconnect(self_)
        http.client.HTTPSConnection.connect = sconnect
        self._undo.append(lambda: setattr(http.client.HTTPSConnection, 'connect', orig_sconnect))

        orig_mk = soapclient_async.SoapClientAsync._mk_http_connection

        async def mk(self_):
            session = await orig_mk(self_)
            base = str(getattr(session, '_base_url', ''))
            rec.connections.append(('https' if base.startswith('https://') else 'http', base))
            return session
        soapclient_async.SoapClientAsync._mk_http_connection = mk
        self._undo.append(lambda: setattr(soapclient_async.SoapClientAsync, '_mk_http_connection', orig_mk))

        orig_ser = msgfactory.MessageFactory.serialize_message

        def ser(self_, message, *a, **k):
            data = orig_ser(self_, message, *a, **k)
            for m in ADDR.finditer(data):
                rec.addresses.append((m.group(1).decode(), m.group(2).decode(), int(m.group(3)), data[:0] + _action(data)))
            return data
        msgfactory.MessageFactory.serialize_message = ser
        self._undo.append(lambda: setattr(msgfactory.MessageFactory, 'serialize_message', orig_ser))
        return self

    def __exit__(self, *exc):
        for u in reversed(self._undo):
            u()
        return False


def _action(data):
    m = re.search(rb'Action[^>]*>([^<]+)<', data)
    return (m.group(1).rsplit(b'/', 1)[-1] if m else b'?')


CONFIGS = [
    # name, provider tls, consumer (container, forced), synchronous provider manager (the default is the asynchronous one),
    # shared consumer server, alt hostname, provider stops first
    ('control-no-tls', False, (False, False), False, False, None, False),
    ('tls-forced', True, (True, True), False, False, None, False),
    ('tls-forced-provider-stops-first', True, (True, True), False, False, None, True),
    ('tls-forced-sync-provider', True, (True, True), True, False, None, True),
    ('tls-forced-alt-hostname', True, (True, True), False, False, 'localhost', False),
    ('tls-forced-shared-server', True, (True, True), False, True, None, False),
    ('tls-optional-consumer', True, (True, False), False, False, None, False),
]


def _run_config(cfg, rec):
    name, ptls, (ccont, forced), use_sync, shared, alt, provider_first = cfg
    from native.loopback import NullDiscovery, REPO
    from sdc11073.consumer.consumerimpl import SdcConsumer, default_components_factory
    from sdc11073.dispatch import RequestDispatcher
    from sdc11073.httpserver.httpserverimpl import HttpServerThreadBase
    from sdc11073.mdib import ConsumerMdib
    from sdc11073.xml_types import pm_types
    from sdc11073 import loghelper
    from tests import utils
    from tests.mockstuff import SomeDevice
    cont = _contexts() if (ptls or ccont) else None
    published = []

    class Disco(NullDiscovery):
        def publish_service(self, epr, types, scopes, x_addrs):
            published.extend(x_addrs)
    wsd = Disco('127.0.0.1')
    components = None
    if use_sync:
        from sdc11073.provider.providerimpl import provider_components_sync_factory
        components = provider_components_sync_factory()
    provider = SomeDevice.from_mdib_file(wsd, None, os.path.join(REPO, 'tests', '70041_MDIB_Final.xml'),
                                         ssl_context_container=cont if ptls else None, max_subscription_duration=30,
                                         components=components, alternative_hostname=alt)
    consumer = None
    server = None
    try:
        provider.start_all(periodic_reports_interval=0.5, start_rtsample_loop=False)
        provider.set_location(utils.random_location(), [pm_types.InstanceIdentifier('Validator', extension_string='System')])
        provider.publish()
        xaddrs = provider.get_xaddrs()
        comp = default_components_factory()
        comp.action_dispatcher_class = RequestDispatcher
        consumer = SdcConsumer(xaddrs[0], sdc_definitions=provider.mdib.sdc_definitions,
                               ssl_context_container=cont if ccont else None, validate=True, components=comp,
                               force_ssl_connect=forced, alternative_hostname=alt)
        if shared:
            server = HttpServerThreadBase('127.0.0.1', cont.server_context if cont else None,
                                          logger=loghelper.get_logger_adapter('sdc.shared'), supported_encodings=[])
            server.start()
            server.started_evt.wait(10)
        consumer.start_all(shared_http_server=server)
        mdib = ConsumerMdib(consumer)
        mdib.init_mdib()
        # renew + status of every subscription, one operation invocation, one committed change -> notifications
        for s in list(consumer.subscription_mgr.subscriptions.values()):
            s.renew(60)
            s.get_status()
        with provider.mdib.metric_state_transaction() as tr:
            for d in provider.mdib.descriptions.NODETYPE.get(provider.mdib.data_model.pm_names.NumericMetricDescriptor, [])[:1]:
                st = tr.get_state(d.Handle)
                st.mk_metric_value()
                st.MetricValue.Value = Decimal(42)
        ops = provider.mdib.descriptions.NODETYPE.get(provider.mdib.data_model.pm_names.SetStringOperationDescriptor, [])
        if ops:
            try:
                fut = consumer.set_service_client.set_string(ops[0].Handle, 'x')
                fut.result(timeout=5)
            except Exception:  # noqa: BLE001  (an operation the role provider refuses still was a request/response pair)
                pass
        time.sleep(0.8)   # one periodic report
        if provider_first:
            provider.stop_all()      # SubscriptionEnd to every subscriber
            time.sleep(0.3)
            consumer.stop_all(unsubscribe=False)
        else:
            consumer.stop_all(unsubscribe=True)
            provider.stop_all()
    finally:
        for x in (consumer, provider):
            try:
                if x is not None:
                    x.stop_all() if x is provider else x.stop_all(unsubscribe=False)
            except Exception:  # noqa: BLE001
                pass
        if server is not None:
            try:
                server.stop()
            except Exception:  # noqa: BLE001
                pass
    return xaddrs, published, consumer


def tls_loopback():
    import logging
    logging.getLogger('sdc').setLevel(logging.CRITICAL)
    cases, bad = 0, []
    configs = CONFIGS if tier() == 'thorough' else CONFIGS[:2] + CONFIGS[3:6]
    for cfg in configs:
        name, ptls, (ccont, forced), *_ = cfg
        with Recorder() as rec:
            xaddrs, published, consumer = _run_config(cfg, rec)
        cases += len(rec.clients) + len(rec.connections) + len(rec.addresses) + len(xaddrs) + len(published)
        plain_clients = [c for c in rec.clients if not c[2]]
        plain_conns = [c for c in rec.connections if c[0] != 'https']
        plain_addrs = [a for a in rec.addresses if a[0] != 'https']
        plain_x = [x for x in list(xaddrs) + list(published) if not x.startswith('https://')]
        if not ptls:
            # control: the recorders must see the plaintext of an unencrypted run
            for what, seen in (('clients', plain_clients), ('connections', plain_conns), ('addresses', plain_addrs), ('xaddrs', plain_x)):
                if not seen:
                    bad.append({'key': f'recorder-blind:{what}', 'detail': f'control run without TLS recorded no plaintext {what}'})
            continue
        if not rec.clients or not rec.connections or not rec.addresses:
            bad.append({'key': f'nothing-recorded:{name}', 'detail': f'{name}: clients={len(rec.clients)} connections={len(rec.connections)} addresses={len(rec.addresses)}'})
        if forced or ptls and ccont:
            # both sides have TLS; with the consumer enforced nothing may be plaintext, with the optional consumer the
            # provider side still must not be (the consumer connects with TLS first and succeeds)
            for c in plain_clients[:2]:
                bad.append({'key': f'plaintext-client:{name}:{c[0]}', 'detail': f'{name}: {c[0]} for {c[1]} created without ssl context'})
            for c in plain_conns[:2]:
                bad.append({'key': f'plaintext-connection:{name}', 'detail': f'{name}: plaintext connection to {c[1]}'})
            for a in plain_addrs[:2]:
                bad.append({'key': f'plaintext-address:{name}:{a[3].decode(errors="replace")}',
                            'detail': f'{name}: http://{a[1]}:{a[2]} in message {a[3].decode(errors="replace")}'})
            for x in plain_x[:2]:
                bad.append({'key': f'plaintext-xaddr:{name}', 'detail': f'{name}: advertised {x}'})
        if forced and consumer is not None and consumer.is_ssl_connection is not True:
            bad.append({'key': f'flag-cleared:{name}', 'detail': f'{name}: is_ssl_connection={consumer.is_ssl_connection!r} after the run'})
    return cases, bad


def urlparse_scheme():
    """axiom of C19.consumer_base_url: urlparse(u).scheme for u = 'https://' + anything (when urlparse returns)."""
    from urllib.parse import urlparse
    rnd = random.Random(SEED)
    alphabet = 'ab1.:/@[]?#%- _\t\n\\ä'
    n = 20000 if tier() == 'thorough' else 4000
    cases, bad = 0, []
    for i in range(n):
        tail = ''.join(rnd.choice(alphabet) for _ in range(rnd.randint(0, 12)))
        for sch in ('https', 'http'):
            u = f'{sch}://{tail}'
            try:
                got = urlparse(u).scheme
            except ValueError:
                continue
            cases += 1
            if got != sch:
                bad.append({'key': 'urlparse-scheme', 'detail': f'urlparse({u!r}).scheme == {got!r}'})
                break
    return cases, bad


if __name__ == '__main__':
    c = Collector()
    c.run('C19.tls_loopback_no_plaintext', 'B', tls_loopback,
          bound='real provider + consumer on 127.0.0.1 with anonymous-cipher TLS contexts: sync/async provider, own/shared '
                'consumer http server, alternative host name, either side stopping first (plus optional-TLS consumer and a '
                'second stop order in the thorough tier); start-up, subscribe, renew, status, get, one operation, one '
                'periodic report, unsubscribe / SubscriptionEnd; control run without TLS must record plaintext')
    from native import replays_C19

    def redirect():
        r = replays_C19.redirect({})
        return 1, ([{'key': r['witness_key'], 'detail': r['detail'], 'inputs': {}}] if r.get('violates') else [])
    c.run('C19.redirect_to_plain_http_not_followed', 'B', redirect, replay_fn='C19:redirect',
          bound='one 307 redirect from a TLS endpoint to a plain http server, real SoapClientAsync with a TLS client context')
    c.run('C19.urlparse_scheme', 'B', urlparse_scheme,
          bound='4000 (quick) / 20000 (thorough) random urls per scheme, tails of up to 12 characters over a 17-character alphabet')
    c.emit()
