"""Start the real sdc11073 http server thread with a dummy component; send raw bytes; read the raw answer."""
import logging
import socket
import time

from sdc11073.httpserver.httpserverimpl import HttpServerThreadBase


class DummyComponent:
    def __init__(self):
        self.posts = []

    def do_post(self, headers, path, peer_name, request_bytes):
        self.posts.append(request_bytes)
        return 200, 'Ok', b'<ok/>'

    def do_get(self, headers, path, peer_name):
        return 200, 'Ok', b'<ok/>', 'text/xml'


class Server:
    def __init__(self, chunk_size=0, encodings=('gzip',)):
        logging.getLogger('verif.http').setLevel(logging.CRITICAL)
        self.thread = HttpServerThreadBase('127.0.0.1', None, list(encodings), logging.getLogger('verif.http'),
                                           chunk_size=chunk_size)
        self.thread.start()
        self.thread.started_evt.wait(5)
        self.component = DummyComponent()
        self.thread.dispatcher.register_instance('comp', self.component)
        self.port = self.thread.server_port
        # silence the default socketserver traceback printer, but record that it was called
        self.escaped = []
        orig = self.thread.httpd.handle_error

        def handle_error(request, client_address):
            import sys
            self.escaped.append(repr(sys.exc_info()[1]))
        self.thread.httpd.handle_error = handle_error

    def raw(self, data: bytes, timeout=3.0, shutdown_write=True) -> bytes:
        s = socket.create_connection(('127.0.0.1', self.port), timeout=timeout)
        try:
            s.sendall(data)
            if shutdown_write:
                s.shutdown(socket.SHUT_WR)
            out = b''
            t0 = time.time()
            while time.time() - t0 < timeout:
                try:
                    chunk = s.recv(65536)
                except socket.timeout:
                    return out + b'<<TIMEOUT>>'
                if not chunk:
                    break
                out += chunk
            return out
        finally:
            s.close()

    def stop(self):
        self.thread.stop()
