"""C13 bounded stand-ins [B]: raw byte requests against the real http server thread; reader on truncated streams."""
from native.nativelib import Collector
from native import replays_C13


def wrap(fn, n):
    def run():
        r = fn({})
        if r.get('violates'):
            return n, [{'key': r.get('witness_key', 'x'), 'detail': r['detail'], 'inputs': {}}]
        return n, []
    return run


if __name__ == '__main__':
    c = Collector()
    c.run('C13.raw_requests', 'B', wrap(replays_C13.handler_escape, 38), replay_fn='C13:handler_escape',
          bound='38 malformed / valid raw requests (incl. 13 sloppy Accept-Encoding headers on POST and GET; (bad content-length, truncated / negative / empty chunked bodies, '
                'unknown coding, corrupt gzip, unknown and malformed paths) against the real server thread')
    c.run('C13.dechunk_streams', 'B', wrap(replays_C13.dechunk, 38), replay_fn='C13:dechunk',
          bound='all truncations of a valid 3-chunk body + 8 malformed streams, 2 s time limit each')
    c.run('C13.provider_paths', 'B', wrap(replays_C13.provider_paths, 17), replay_fn='C13:provider_paths',
          bound='17 unusual request paths (raw control characters, percent-encoded non-latin-1, CR/LF, NUL, surplus / empty segments) with a valid GetMdib body against a real provider')
    c.run('C13.open_connection_framing', 'B', wrap(replays_C13.open_connection_framing, 8), replay_fn='C13:open_connection_framing',
          bound='8 malformed / absent length framings (negative, signed, empty, duplicate Content-Length, none) sent over a connection the client keeps open, 4 s limit each, real provider')
    c.run('C13.schema_invalid_bodies', 'B', wrap(replays_C13.schema_invalid_bodies, 6), replay_fn='C13:schema_invalid_bodies',
          bound='6 schema-invalid GetMdState requests whose offending name / value / text contains non-latin-1 characters or line feeds, real provider')
    c.run('C13.fault_text_always_serializable', 'B', wrap(replays_C13.fault_text, 0x110000), replay_fn='C13:fault_text',
          bound='Fault.add_reason_text on every one of the 1114112 Unicode code points (exhaustive for a per-character function): result accepted by lxml, legal characters unchanged')
    from native import C09_native
    c.run('C13.full_operation_queue', 'B', C09_native.full_queue,
          bound='one set-request against a full operation worker queue (10 entries), 4 s limit')
    c.emit()
